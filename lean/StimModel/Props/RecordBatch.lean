import StimModel.Model.RecordBatch
/-!
# Streaming the batched measurement record writes every row once, in order, inverted by the reference sample (C02)

For every sequence of `record` / intermediate flush / final flush operations on a `MeasureRecordBatch` that starts empty, for every
reference sample, lookback limit and block size:

* `stream_is_history` : the rows handed to the writer so far, followed by the rows still pending, are exactly the recorded rows in
  order, row `i` inverted iff reference bit `i` is set — block writes, trimming of old rows and the position of the flushes
  make no difference;
* `final_flush_writes_everything` : after a final flush the written rows are the whole history (so streamed output = in-memory output);
* `lookback_is_history` : a lookback within the limit returns the recorded (uninverted) row at that distance from the end.
-/
namespace Stim.RecordBatch

def pending (r : BRec) : List (List Bool) := r.rows.drop (r.rows.length - r.unwritten)

theorem outRows_append (ref : List Bool) : ∀ (a b : List (List Bool)) (s : Nat),
    outRows ref s (a ++ b) = outRows ref s a ++ outRows ref (s + a.length) b
  | [], b, s => by simp [outRows]
  | x :: xs, b, s => by
    simp only [List.cons_append, outRows, outRows_append ref xs b (s + 1), List.length_cons]
    rw [show s + 1 + xs.length = s + (xs.length + 1) by omega]

structure Inv (r : BRec) (hist : List (List Bool)) : Prop where
  unw : r.unwritten ≤ r.rows.length
  suffix : ∃ pre, hist = pre ++ r.rows
  count : r.written + r.unwritten = hist.length

theorem pending_length (r : BRec) (h : r.unwritten ≤ r.rows.length) : (pending r).length = r.unwritten := by
  simp [pending]; omega

/-- the block-writing loop: output ++ what is still pending = what was pending; the window is untouched -/
theorem drainFuel_spec (blk : Nat) (ref : List Bool) : ∀ (fuel : Nat) (r : BRec) (hist : List (List Bool)), Inv r hist →
    let res := drainFuel blk ref fuel r
    Inv res.1 hist ∧ res.1.rows = r.rows ∧ res.1.maxLookback = r.maxLookback ∧
      res.2 ++ outRows ref res.1.written (pending res.1) = outRows ref r.written (pending r)
  | 0, r, hist, h => by simp [drainFuel, h]
  | fuel+1, r, hist, h => by
    simp only [drainFuel]
    split
    · rename_i hge
      have hle : blk ≤ r.unwritten := hge
      have hi1 : Inv { r with unwritten := r.unwritten - blk, written := r.written + blk } hist :=
        ⟨by have := h.unw; simp; omega, h.suffix, by have := h.count; simp; omega⟩
      have ih := drainFuel_spec blk ref fuel _ hist hi1
      obtain ⟨i1, i2, i3, i4⟩ := ih
      refine ⟨i1, i2, i3, ?_⟩
      simp only at i4 ⊢
      rw [List.append_assoc, i4]
      -- pending r = block ++ pending r1
      have hu := h.unw
      have hsplit : pending r = (r.rows.drop (r.rows.length - r.unwritten)).take blk
          ++ pending { r with unwritten := r.unwritten - blk, written := r.written + blk } := by
        simp only [pending]
        have : r.rows.length - (r.unwritten - blk) = (r.rows.length - r.unwritten) + blk := by omega
        rw [this, ← List.drop_drop, List.take_append_drop]
      have hlen : ((r.rows.drop (r.rows.length - r.unwritten)).take blk).length = blk := by
        simp; omega
      rw [hsplit, outRows_append, hlen]
    · exact ⟨h, rfl, rfl, by simp⟩

theorem pending_trim (r : BRec) (m : Nat) (hm : r.unwritten ≤ m) (hu : r.unwritten ≤ r.rows.length) :
    pending { r with rows := trim m r.rows } = pending r := by
  simp only [pending, trim]
  split
  · rename_i hbig
    simp only [List.length_drop]
    rw [List.drop_drop]
    congr 1; omega
  · rfl

theorem step_spec (ref : List Bool) (r : BRec) (hist : List (List Bool)) (op : Op) (hop : op ≠ .markWritten) (h : Inv r hist) :
    let res := step ref r op
    Inv res.1 (hist ++ history [op]) ∧ res.1.maxLookback = r.maxLookback ∧
      res.2 ++ outRows ref res.1.written (pending res.1)
        = outRows ref r.written (pending r ++ history [op]) := by
  cases op with
  | record row =>
    obtain ⟨hu, ⟨pre, hp⟩, hc⟩ := h
    refine ⟨⟨by simp [step]; omega, ⟨pre, by simp [step, history, hp]⟩, by simp [step, history]; omega⟩, rfl, ?_⟩
    simp only [step, history, List.nil_append, pending, List.length_append, List.length_singleton]
    rw [show r.rows.length + 1 - (r.unwritten + 1) = r.rows.length - r.unwritten by omega,
        List.drop_append_of_le_length (by omega)]
  | flushI =>
    have hd := drainFuel_spec WRITE_SIZE ref r.unwritten r hist h
    obtain ⟨i1, i2, i3, i4⟩ := hd
    simp only [step, drain, history, List.append_nil]
    refine ⟨?_, i3, ?_⟩
    · obtain ⟨hu, ⟨pre, hp⟩, hc⟩ := i1
      refine ⟨?_, ?_, hc⟩
      · simp only [trim]; split
        · simp only [List.length_drop]; omega
        · exact hu
      · simp only [trim]; split
        · refine ⟨pre ++ (drainFuel WRITE_SIZE ref r.unwritten r).1.rows.take ((drainFuel WRITE_SIZE ref r.unwritten r).1.rows.length - max (drainFuel WRITE_SIZE ref r.unwritten r).1.maxLookback (drainFuel WRITE_SIZE ref r.unwritten r).1.unwritten), ?_⟩
          rw [hp, List.append_assoc, List.take_append_drop]
        · exact ⟨pre, hp⟩
    · rw [pending_trim _ _ (Nat.le_max_right _ _) i1.unw]
      exact i4
  | flushF =>
    obtain ⟨hu, ⟨pre, hp⟩, hc⟩ := h
    refine ⟨⟨by simp [step], ⟨pre, by simp [step, history, hp]⟩, by simp [step, history]; omega⟩, rfl, ?_⟩
    simp [step, history, pending, outRows]
  | markWritten => exact absurd rfl hop

theorem run_spec (ref : List Bool) : ∀ (ops : List Op) (r : BRec) (hist : List (List Bool)), (∀ op ∈ ops, op ≠ .markWritten) → Inv r hist →
    let res := run ref r ops
    Inv res.1 (hist ++ history ops) ∧ res.1.maxLookback = r.maxLookback ∧
      res.2 ++ outRows ref res.1.written (pending res.1) = outRows ref r.written (pending r ++ history ops)
  | [], r, hist, _, h => by simp [run, history, h]
  | op :: ops, r, hist, hno, h => by
    have hs := step_spec ref r hist op (hno op (by simp)) h
    obtain ⟨s1, s2, s3⟩ := hs
    have ih := run_spec ref ops (step ref r op).1 (hist ++ history [op]) (fun o ho => hno o (by simp [ho])) s1
    obtain ⟨t1, t2, t3⟩ := ih
    have hh : history (op :: ops) = history [op] ++ history ops := by cases op <;> simp [history]
    simp only [run]
    refine ⟨by rw [hh, ← List.append_assoc]; exact t1, by rw [t2, s2], ?_⟩
    rw [List.append_assoc, t3, hh]
    -- outRows from (step).written over (pending (step) ++ history ops), preceded by the step's output
    have hlen : (pending (step ref r op).1).length = (step ref r op).1.unwritten := pending_length _ s1.unw
    rw [outRows_append, ← List.append_assoc, s3, outRows_append, outRows_append, outRows_append, List.append_assoc]
    congr 2
    -- absolute index bookkeeping: written' + unwritten' = written + unwritten + |history [op]|
    have c1 := s1.count
    have c0 := h.count
    have hl0 : (pending r).length = r.unwritten := pending_length _ h.unw
    simp only [List.length_append] at c1 ⊢
    rw [hlen, hl0]
    congr 1; omega

theorem init_inv (m : Nat) : Inv (BRec.init m) [] := ⟨by simp [BRec.init], ⟨[], by simp [BRec.init]⟩, by simp [BRec.init]⟩

/-- **Nothing is lost, duplicated or reordered by streaming; rows are inverted exactly by their reference bit.** -/
theorem stream_is_history (ref : List Bool) (m : Nat) (ops : List Op) (hno : ∀ op ∈ ops, op ≠ .markWritten) :
    let res := run ref (BRec.init m) ops
    res.2 ++ outRows ref res.1.written (pending res.1) = outRows ref 0 (history ops) := by
  have := (run_spec ref ops (BRec.init m) [] hno (init_inv m)).2.2
  simpa [BRec.init, pending] using this

theorem run_append (ref : List Bool) (a b : List Op) (r : BRec) :
    run ref r (a ++ b) = ((run ref (run ref r a).1 b).1, (run ref r a).2 ++ (run ref (run ref r a).1 b).2) := by
  induction a generalizing r with
  | nil => simp [run]
  | cons op a ih => simp [run, ih, List.append_assoc]

theorem history_flushF (ops : List Op) : history (ops ++ [.flushF]) = history ops := by
  induction ops with
  | nil => simp [history]
  | cons op ops ih => cases op <;> simp [history, ih]

/-- **After the final flush the writer has received the whole history.** -/
theorem final_flush_writes_everything (ref : List Bool) (m : Nat) (ops : List Op) (hno : ∀ op ∈ ops, op ≠ .markWritten) :
    (run ref (BRec.init m) (ops ++ [.flushF])).2 = outRows ref 0 (history ops) := by
  have h := stream_is_history ref m (ops ++ [.flushF]) (by
    intro op hop
    simp only [List.mem_append, List.mem_singleton] at hop
    rcases hop with hop | rfl
    · exact hno op hop
    · intro hc; cases hc)
  have hu : (run ref (BRec.init m) (ops ++ [.flushF])).1.unwritten = 0 := by
    rw [run_append]; simp [run, step]
  simp only [pending, hu, Nat.sub_zero, List.drop_length, outRows, List.append_nil] at h
  rw [h, history_flushF]

/-- **Lookbacks within the limit read the recorded (uninverted) rows.** -/
theorem lookback_is_history (ref : List Bool) (m : Nat) (ops : List Op) (hno : ∀ op ∈ ops, op ≠ .markWritten) (k : Nat)
    (hk : 1 ≤ k) (hkm : k ≤ m) (hw : k ≤ (run ref (BRec.init m) ops).1.rows.length) :
    (run ref (BRec.init m) ops).1.lookback k = (history ops)[(history ops).length - k]? := by
  have hr := run_spec ref ops (BRec.init m) [] hno (init_inv m)
  obtain ⟨⟨_, ⟨pre, hp⟩, _⟩, hm, _⟩ := hr
  simp only [List.nil_append] at hp
  have hm' : (run ref (BRec.init m) ops).1.maxLookback = m := by rw [hm]; rfl
  unfold BRec.lookback
  rw [hm']
  have hc : (k == 0 || decide (k > (run ref (BRec.init m) ops).1.rows.length) || decide (k > m)) = false := by
    simp; omega
  rw [hc]
  simp only [Bool.false_eq_true, ↓reduceIte]
  rw [hp, List.length_append, List.getElem?_append_right (by omega)]
  congr 1; omega

example : (run [true, false] (BRec.init 1) [.record [true, false], .record [false, false], .flushI, .record [true, true], .flushF]).2
    = [[false, true], [false, false], [true, true]] := by decide

end Stim.RecordBatch
