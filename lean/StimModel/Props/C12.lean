import StimModel.Model.PauliProp
import StimModel.Generated.GateThms
import StimModel.Generated.PauliRefThms
/-!
# C12 — Pauli string arithmetic and propagation are exact

General theorems (all lengths, all positions) plus the regenerated obligations `Generated/PauliRefThms`
(every `PauliStringRef::do_*` / `undo_*` routine equals the gate's table resp. its inverse's table on the whole
signed local domain, 3 widths) and `Generated/GateThms` (tables = conjugation by the documented unitaries;
`inverse_id_inverts_*`).
-/
namespace Stim.C12
open Stim

/-- the product of Pauli strings is associative, the power of `i` included, for strings of every length -/
theorem mul_assoc (a b c : PS) : (a.mul b).mul c = a.mul (b.mul c) := PS.mul_assoc a b c

/-- Boolean form of `Act1.Hom` (a finite check) -/
def hom1Check (a : Act1) : Bool :=
  P1.all.all fun p => P1.all.all fun q =>
    (((a.f p).1 + (a.f q).1 + ((a.f p).2.mul (a.f q).2).1) % 4 == ((p.mul q).1 + (a.f (p.mul q).2).1) % 4)
      && decide (((a.f p).2.mul (a.f q).2).2 = (a.f (p.mul q).2).2)

theorem hom1Check_sound (a : Act1) (h : hom1Check a = true) : a.Hom := by
  intro p q
  simp only [hom1Check, P1.all, List.all_cons, List.all_nil, Bool.and_true, Bool.and_eq_true, beq_iff_eq,
    decide_eq_true_eq] at h
  cases p <;> cases q <;> simp_all

/-- every single-qubit gate table of the compiled gate table is a homomorphism of the letter algebra … -/
theorem table_gates_hom1 :
    (Gen.gates.filter fun g => g.arity == 1).all (fun g => hom1Check (Act1.ofTab (fullTab 1 g.tab))) = true := by
  decide

/-- … hence propagating a product is the product of the propagated strings, at any position, any length, phases
    included (`after` is a group homomorphism), for each such gate. -/
theorem after_mul_single (g : GateRow) (hg : g ∈ Gen.gates) (ha : g.arity = 1) (q : Nat) (s t : PS)
    (hl : s.ps.length = t.ps.length) :
    ((s.mul t).conj1 (Act1.ofTab (fullTab 1 g.tab)) q)
      = (s.conj1 (Act1.ofTab (fullTab 1 g.tab)) q).mul (t.conj1 (Act1.ofTab (fullTab 1 g.tab)) q) := by
  have hall := table_gates_hom1
  rw [List.all_eq_true] at hall
  have hmem : g ∈ Gen.gates.filter fun g => g.arity == 1 := by
    simp [List.mem_filter, hg, ha]
  have hh := hom1Check_sound _ (hall g hmem)
  have hI : (Act1.ofTab (fullTab 1 g.tab)).f .I = (0, .I) := by
    have := hh P1.I P1.I
    revert hg ha
    intro hg ha
    -- identity letter: read off the table of each gate
    have key : (Gen.gates.filter fun g => g.arity == 1).all
        (fun g => decide ((Act1.ofTab (fullTab 1 g.tab)).f .I = (0, .I))) = true := by decide
    rw [List.all_eq_true] at key
    exact of_decide_eq_true (key g hmem)
  exact (PS.conj1_mul _ hh hI q s t hl).symm ▸ rfl

/-- Refusal logic (decision logic stated outright): a measurement in basis `b` refuses exactly the strings whose letter
    on a measured qubit anticommutes with `b`, and otherwise leaves the string unchanged — in both directions. -/
theorem measurement_refusal (dir : Dir) (ts : List Target) (s : PS)
    (hr : ts.all (fun t => !(hasQubitValue t && t.value ≥ s.ps.length)) = true) :
    propInstr dir "M" ts s = (if ts.any (fun t => (letterAt s t.value).anti .Z) then none else some s) := by
  have hg : findGate "M" = some Gen.g_M := by decide
  have hne : Gen.g_M.noEffectOnQubits = false := by decide
  have hany : (ts.any fun t => hasQubitValue t && decide (t.value ≥ s.ps.length)) = false := by
    rw [List.any_eq_false]
    intro t ht
    rw [List.all_eq_true] at hr
    have := hr t ht
    cases hq : hasQubitValue t <;> simp_all
  simp [propInstr, hg, hne, hany, singleBasis]

/-- non-vacuity -/
example : propCircuit .fwd [.instr "H" "" [] [⟨0⟩]] ⟨0, [.X, .Z]⟩ = some ⟨0, [.Z, .Z]⟩ := by decide
example : propCircuit .fwd [.instr "M" "" [] [⟨0⟩]] ⟨0, [.X, .Z]⟩ = none := by decide
example : propCircuit .bwd [.instr "S" "" [] [⟨0⟩]] ⟨0, [.Y]⟩ = some ⟨0, [.X]⟩ := by decide

end Stim.C12
