import StimModel.Props.C12
/-!
# C12 (continued): two-qubit gates are homomorphisms of the Pauli string algebra, phases included

`Core/Two.conj2_mul_split` lifts a per-letter-pair homomorphism `Act2.Hom` to strings of any length (split form: the two touched
positions anywhere in the string, first target before the second).  Here the hypothesis is discharged for **every two-qubit
unitary gate of the compiled gate table** (`table_gates_hom2`, a kernel-checked finite computation over the regenerated tables:
256 letter-pair combinations per gate), in both target orders (`Act2.swap`), giving

* `after_mul_pair`: propagating a product through a two-qubit gate is the product of the propagated strings — any two
  distinct positions, any length, power of `i` included;
* `after_mul_pair_swapped`: the same when the gate's first target sits *after* its second target in the string.
-/
namespace Stim
/-- the same gate with its two targets exchanged -/
def Act2.swap (a : Act2) : Act2 := ⟨fun y x => ((a.f x y).1, ((a.f x y).2.2, (a.f x y).2.1))⟩

theorem Act2.swap_hom (a : Act2) (h : a.Hom) : a.swap.Hom := by
  intro c t c' t'
  obtain ⟨h1, h2, h3⟩ := h t c t' c'
  refine ⟨?_, h3, h2⟩
  simp only [Act2.swap]
  omega

end Stim

namespace Stim.C12
open Stim

/-- Boolean form of `Act2.Hom` -/
def hom2Check (a : Act2) : Bool :=
  P1.all.all fun c => P1.all.all fun t => P1.all.all fun c' => P1.all.all fun t' =>
    ((a.f c t).1 + (a.f c' t').1 + ((a.f c t).2.1.mul (a.f c' t').2.1).1 + ((a.f c t).2.2.mul (a.f c' t').2.2).1) % 4
      == ((c.mul c').1 + (t.mul t').1 + (a.f (c.mul c').2 (t.mul t').2).1) % 4
    && decide (((a.f c t).2.1.mul (a.f c' t').2.1).2 = (a.f (c.mul c').2 (t.mul t').2).2.1)
    && decide (((a.f c t).2.2.mul (a.f c' t').2.2).2 = (a.f (c.mul c').2 (t.mul t').2).2.2)

theorem P1.mem_all (p : P1) : p ∈ P1.all := by cases p <;> simp [P1.all]

theorem hom2Check_sound (a : Act2) (h : hom2Check a = true) : a.Hom := by
  intro c t c' t'
  simp only [hom2Check, List.all_eq_true] at h
  have := h c (P1.mem_all c) t (P1.mem_all t) c' (P1.mem_all c') t' (P1.mem_all t')
  simp only [Bool.and_eq_true, beq_iff_eq, decide_eq_true_eq] at this
  exact ⟨this.1.1, this.1.2, this.2⟩

def twoQubitUnitaries : List GateRow := Gen.gates.filter fun g => g.arity == 2 && g.isUnitary && !g.tab.isEmpty

/-- **every two-qubit unitary of the compiled gate table acts as a homomorphism on letter pairs** (regenerated tables) -/
theorem table_gates_hom2 : twoQubitUnitaries.all (fun g => hom2Check (Act2.ofTab (fullTab 2 g.tab))) = true := by
  decide +kernel

theorem gate_hom2 (g : GateRow) (hg : g ∈ twoQubitUnitaries) : (Act2.ofTab (fullTab 2 g.tab)).Hom := by
  have hall := table_gates_hom2
  rw [List.all_eq_true] at hall
  exact hom2Check_sound _ (hall g hg)

/-- **`after` is multiplicative for two-qubit gates** (first target at position `|L|`, second at `|L|+1+|M|`). -/
theorem after_mul_pair (g : GateRow) (hg : g ∈ twoQubitUnitaries) (ph ph' : Nat) (L M T L' M' T' : List P1) (x y x' y' : P1)
    (hL : L.length = L'.length) (hM : M.length = M'.length) :
    let a := Act2.ofTab (fullTab 2 g.tab)
    let s  : PS := ⟨ph,  L  ++ x  :: (M  ++ y  :: T)⟩
    let s' : PS := ⟨ph', L' ++ x' :: (M' ++ y' :: T')⟩
    conj2 a L.length (L.length + 1 + M.length) (s.mul s')
      = (conj2 a L.length (L.length + 1 + M.length) s).mul (conj2 a L.length (L.length + 1 + M.length) s') :=
  (conj2_mul_split _ (gate_hom2 g hg) ph ph' L M T L' M' T' x y x' y' hL hM).symm

/-- … and when the gate's first target comes later in the string than its second target. -/
theorem after_mul_pair_swapped (g : GateRow) (hg : g ∈ twoQubitUnitaries) (ph ph' : Nat) (L M T L' M' T' : List P1) (x y x' y' : P1)
    (hL : L.length = L'.length) (hM : M.length = M'.length) :
    let a := (Act2.ofTab (fullTab 2 g.tab)).swap
    let s  : PS := ⟨ph,  L  ++ x  :: (M  ++ y  :: T)⟩
    let s' : PS := ⟨ph', L' ++ x' :: (M' ++ y' :: T')⟩
    conj2 a L.length (L.length + 1 + M.length) (s.mul s')
      = (conj2 a L.length (L.length + 1 + M.length) s).mul (conj2 a L.length (L.length + 1 + M.length) s') :=
  (conj2_mul_split _ (Act2.swap_hom _ (gate_hom2 g hg)) ph ph' L M T L' M' T' x y x' y' hL hM).symm

/-- non-vacuity: the list is the gate table's two-qubit Cliffords, and CX is among them -/
example : twoQubitUnitaries.length ≥ 20 := by decide
example : (twoQubitUnitaries.map (·.name)).contains "CX" = true := by decide

end Stim.C12
