import StimModel.Model.DemSem
/-!
# Fourier uniqueness on (ℤ/2)ⁿ — why comparing coefficients compares distributions (C03, C06, C10)

The distribution oracle compares the coefficients `E[(-1)^{χ·s}]` of the circuit's noise and of a detector error model.
Proved here: a function on `n`-bit vectors (in particular a probability distribution, or the difference of two) all of whose
`2ⁿ` coefficients vanish is identically zero; hence two distributions with the same coefficients for every `χ` are equal.
(The check evaluates the coefficients on a sample of characters — that part stays a sampled comparison; this theorem says what the
full comparison would establish.)
-/
namespace Stim.Fourier
open Stim

/-- all bit vectors of length `n` -/
def allVecs : Nat → List (List Bool)
  | 0 => [[]]
  | n+1 => (allVecs n).map (false :: ·) ++ (allVecs n).map (true :: ·)

def sgn (b : Bool) : Rat := if b then -1 else 1

def sumR (l : List Rat) : Rat := l.foldr (· + ·) 0

/-- the coefficient of `f` at character `χ` -/
def coeff (n : Nat) (f : List Bool → Rat) (χ : List Bool) : Rat :=
  sumR ((allVecs n).map fun s => f s * sgn (dotOdd χ s))

theorem sumR_append (a b : List Rat) : sumR (a ++ b) = sumR a + sumR b := by
  induction a with
  | nil => simp only [sumR, List.nil_append, List.foldr_nil]; grind
  | cons x xs ih => simp only [sumR, List.cons_append, List.foldr_cons] at ih ⊢; rw [ih]; grind

theorem sumR_add (l : List (List Bool)) (g h : List Bool → Rat) :
    sumR (l.map fun s => g s + h s) = sumR (l.map g) + sumR (l.map h) := by
  induction l with
  | nil => simp only [sumR, List.map_nil, List.foldr_nil]; grind
  | cons x xs ih => simp only [sumR, List.map_cons, List.foldr_cons] at ih ⊢; rw [ih]; grind

theorem sumR_sub (l : List (List Bool)) (g h : List Bool → Rat) :
    sumR (l.map fun s => g s - h s) = sumR (l.map g) - sumR (l.map h) := by
  induction l with
  | nil => simp only [sumR, List.map_nil, List.foldr_nil]; grind
  | cons x xs ih => simp only [sumR, List.map_cons, List.foldr_cons] at ih ⊢; rw [ih]; grind

theorem dotOdd_cons (x y : Bool) (r s : List Bool) : dotOdd (x :: r) (y :: s) = ((x && y) != dotOdd r s) := by
  unfold dotOdd
  simp only [List.zipWith_cons_cons]
  cases hxy : (x && y)
  · simp [List.filter]
  · simp only [List.filter, id, List.length_cons]
    have : ∀ n : Nat, ((n + 1) % 2 == 1) = !(n % 2 == 1) := by
      intro n; rcases Nat.mod_two_eq_zero_or_one n with h | h <;> simp [Nat.add_mod, h]
    rw [this]; simp

/-- splitting off the first bit: the two coefficients with first character bit 0 / 1 are sum and difference of the halves -/
theorem coeff_false (n : Nat) (f : List Bool → Rat) (χ : List Bool) :
    coeff (n + 1) f (false :: χ) = coeff n (fun s => f (false :: s)) χ + coeff n (fun s => f (true :: s)) χ := by
  unfold coeff
  simp only [allVecs, List.map_append, List.map_map, sumR_append]
  congr 1 <;> (apply congrArg; apply List.map_congr_left; intro s _; simp [dotOdd_cons])

theorem coeff_true (n : Nat) (f : List Bool → Rat) (χ : List Bool) :
    coeff (n + 1) f (true :: χ) = coeff n (fun s => f (false :: s)) χ - coeff n (fun s => f (true :: s)) χ := by
  unfold coeff
  simp only [allVecs, List.map_append, List.map_map, sumR_append]
  have h1 : (List.map ((fun s => f s * sgn (dotOdd (true :: χ) s)) ∘ fun x => false :: x) (allVecs n))
      = List.map (fun s => f (false :: s) * sgn (dotOdd χ s)) (allVecs n) := by
    apply List.map_congr_left; intro s _; simp [dotOdd_cons]
  have h2 : (List.map ((fun s => f s * sgn (dotOdd (true :: χ) s)) ∘ fun x => true :: x) (allVecs n))
      = List.map (fun s => 0 - f (true :: s) * sgn (dotOdd χ s)) (allVecs n) := by
    apply List.map_congr_left; intro s _
    simp only [Function.comp, dotOdd_cons, Bool.and_self, sgn]
    cases dotOdd χ s <;> simp <;> grind
  rw [h1, h2, sumR_sub]
  have hz : sumR (List.map (fun _ => (0 : Rat)) (allVecs n)) = 0 := by
    induction (allVecs n) with
    | nil => simp [sumR]
    | cons x xs ih => simp only [sumR, List.map_cons, List.foldr_cons] at ih ⊢; rw [ih]; grind
  rw [hz]; grind

/-- **Uniqueness**: if every coefficient of `f` vanishes then `f` vanishes on all `n`-bit vectors. -/
theorem zero_of_coeffs_zero : ∀ (n : Nat) (f : List Bool → Rat),
    (∀ χ ∈ allVecs n, coeff n f χ = 0) → ∀ s ∈ allVecs n, f s = 0
  | 0, f, h, s, hs => by
    simp only [allVecs, List.mem_singleton] at hs h
    subst hs
    have := h [] rfl
    simp only [coeff, allVecs, List.map_cons, List.map_nil, sumR, List.foldr_cons, List.foldr_nil, dotOdd, sgn] at this
    simp at this
    grind
  | n+1, f, h, s, hs => by
    have h0 : ∀ χ ∈ allVecs n, coeff n (fun s => f (false :: s)) χ = 0 := by
      intro χ hχ
      have a := h (false :: χ) (by simp [allVecs, hχ])
      have b := h (true :: χ) (by simp [allVecs, hχ])
      rw [coeff_false] at a
      rw [coeff_true] at b
      grind
    have h1 : ∀ χ ∈ allVecs n, coeff n (fun s => f (true :: s)) χ = 0 := by
      intro χ hχ
      have a := h (false :: χ) (by simp [allVecs, hχ])
      have b := h (true :: χ) (by simp [allVecs, hχ])
      rw [coeff_false] at a
      rw [coeff_true] at b
      grind
    simp only [allVecs, List.mem_append, List.mem_map] at hs
    rcases hs with ⟨t, ht, rfl⟩ | ⟨t, ht, rfl⟩
    · exact zero_of_coeffs_zero n (fun s => f (false :: s)) h0 t ht
    · exact zero_of_coeffs_zero n (fun s => f (true :: s)) h1 t ht

theorem coeff_sub (n : Nat) (f g : List Bool → Rat) (χ : List Bool) :
    coeff n (fun s => f s - g s) χ = coeff n f χ - coeff n g χ := by
  unfold coeff
  have : (List.map (fun s => (f s - g s) * sgn (dotOdd χ s)) (allVecs n))
      = List.map (fun s => f s * sgn (dotOdd χ s) - g s * sgn (dotOdd χ s)) (allVecs n) := by
    apply List.map_congr_left; intro s _; grind
  rw [this, sumR_sub]

/-- **Two functions (distributions) on n-bit vectors with equal coefficients for every character are equal.** -/
theorem eq_of_coeffs_eq (n : Nat) (f g : List Bool → Rat)
    (h : ∀ χ ∈ allVecs n, coeff n f χ = coeff n g χ) : ∀ s ∈ allVecs n, f s = g s := by
  intro s hs
  have := zero_of_coeffs_zero n (fun s => f s - g s) (by
    intro χ hχ; rw [coeff_sub, h χ hχ]; grind) s hs
  grind

/-- non-vacuity: the coefficient at the zero character is the total mass -/
example : coeff 2 (fun s => if s = [true, false] then 1/4 else if s = [false, false] then 3/4 else 0) [false, false] = 1 := by
  simp [coeff, allVecs, sumR, dotOdd, sgn]; grind

end Stim.Fourier

/-! ## The model's bias formula is the Fourier transform of "XOR of independently fired errors" -/
namespace Stim.Fourier
open Stim

def xorVec (a b : List Bool) : List Bool := List.zipWith (· != ·) a b

/-- distribution of the XOR of independently fired errors `(p, e)` over `n`-bit symptom vectors -/
def demDist : List (Rat × List Bool) → List Bool → Rat
  | [] => fun s => if s.all (! ·) then 1 else 0
  | (p, e) :: es => fun s => (1 - p) * demDist es s + p * demDist es (xorVec s e)

theorem mem_allVecs_length : ∀ (n : Nat) (s : List Bool), s ∈ allVecs n → s.length = n
  | 0, s, h => by simp [allVecs] at h; simp [h]
  | n+1, s, h => by
    simp only [allVecs, List.mem_append, List.mem_map] at h
    rcases h with ⟨t, ht, rfl⟩ | ⟨t, ht, rfl⟩ <;> simp [mem_allVecs_length n t ht]

theorem mem_allVecs_of_length : ∀ (n : Nat) (s : List Bool), s.length = n → s ∈ allVecs n
  | 0, s, h => by
    have : s = [] := by cases s <;> simp_all
    simp [allVecs, this]
  | n+1, [], h => by simp at h
  | n+1, b :: t, h => by
    have ht := mem_allVecs_of_length n t (by simpa using h)
    simp only [allVecs, List.mem_append, List.mem_map]
    cases b
    · exact Or.inl ⟨t, ht, rfl⟩
    · exact Or.inr ⟨t, ht, rfl⟩

/-- the coefficient of the point mass at zero is 1 for every character -/
theorem coeff_delta : ∀ (n : Nat) (χ : List Bool), χ ∈ allVecs n →
    coeff n (fun s => if s.all (! ·) then 1 else 0) χ = 1
  | 0, χ, h => by
    simp only [allVecs, List.mem_singleton] at h; subst h
    simp [coeff, allVecs, sumR, dotOdd, sgn]; grind
  | n+1, χ, h => by
    simp only [allVecs, List.mem_append, List.mem_map] at h
    have hzero : ∀ χ' ∈ allVecs n, coeff n (fun s => if (true :: s).all (! ·) then (1 : Rat) else 0) χ' = 0 := by
      intro χ' _
      unfold coeff
      have : (List.map (fun s => (if (true :: s).all (! ·) = true then (1 : Rat) else 0) * sgn (dotOdd χ' s)) (allVecs n))
          = List.map (fun _ => (0 : Rat)) (allVecs n) := by
        apply List.map_congr_left; intro s _; simp
      rw [this]
      induction (allVecs n) with
      | nil => simp [sumR]
      | cons x xs ih => simp only [sumR, List.map_cons, List.foldr_cons] at ih ⊢; rw [ih]; grind
    have hsame : ∀ χ' ∈ allVecs n, coeff n (fun s => if (false :: s).all (! ·) then (1 : Rat) else 0) χ' = 1 := by
      intro χ' hχ'
      have := coeff_delta n χ' hχ'
      simpa using this
    rcases h with ⟨t, ht, rfl⟩ | ⟨t, ht, rfl⟩
    · rw [coeff_false, hsame t ht, hzero t ht]; grind
    · rw [coeff_true, hsame t ht, hzero t ht]; grind

/-- translating a function by `e` multiplies its coefficient at `χ` by `(-1)^{χ·e}` -/
theorem coeff_shift : ∀ (n : Nat) (f : List Bool → Rat) (e χ : List Bool), e ∈ allVecs n → χ ∈ allVecs n →
    coeff n (fun s => f (xorVec s e)) χ = sgn (dotOdd χ e) * coeff n f χ
  | 0, f, e, χ, he, hχ => by
    simp only [allVecs, List.mem_singleton] at he hχ; subst he; subst hχ
    simp [coeff, allVecs, sumR, dotOdd, sgn, xorVec]
  | n+1, f, e, χ, he, hχ => by
    simp only [allVecs, List.mem_append, List.mem_map] at he hχ
    have key : ∀ (b : Bool) (e' : List Bool) (g : List Bool → Rat) (c : Bool),
        (fun s => g (xorVec (c :: s) (b :: e'))) = fun s => g ((c != b) :: xorVec s e') := by
      intro b e' g c; funext s; simp [xorVec]
    rcases he with ⟨e', he', rfl⟩ | ⟨e', he', rfl⟩ <;> rcases hχ with ⟨χ', hχ', rfl⟩ | ⟨χ', hχ', rfl⟩
    · -- e = false :: e', χ = false :: χ'
      rw [coeff_false, coeff_false, key, key]
      have a := coeff_shift n (fun s => f (false :: s)) e' χ' he' hχ'
      have b := coeff_shift n (fun s => f (true :: s)) e' χ' he' hχ'
      simp only [show (false != false) = false by rfl, show (true != false) = true by rfl]
      rw [a, b, dotOdd_cons]; simp; grind
    · -- e = false :: e', χ = true :: χ'
      rw [coeff_true, coeff_true, key, key]
      have a := coeff_shift n (fun s => f (false :: s)) e' χ' he' hχ'
      have b := coeff_shift n (fun s => f (true :: s)) e' χ' he' hχ'
      simp only [show (false != false) = false by rfl, show (true != false) = true by rfl]
      rw [a, b, dotOdd_cons]; simp; grind
    · -- e = true :: e', χ = false :: χ'
      rw [coeff_false, coeff_false, key, key]
      have a := coeff_shift n (fun s => f (false :: s)) e' χ' he' hχ'
      have b := coeff_shift n (fun s => f (true :: s)) e' χ' he' hχ'
      simp only [show (false != true) = true by rfl, show (true != true) = false by rfl]
      rw [a, b, dotOdd_cons]; simp; grind
    · -- e = true :: e', χ = true :: χ'
      rw [coeff_true, coeff_true, key, key]
      have a := coeff_shift n (fun s => f (false :: s)) e' χ' he' hχ'
      have b := coeff_shift n (fun s => f (true :: s)) e' χ' he' hχ'
      simp only [show (false != true) = true by rfl, show (true != true) = false by rfl]
      rw [a, b, dotOdd_cons]
      cases dotOdd χ' e' <;> simp [sgn] <;> grind

theorem coeff_lin (n : Nat) (a b : Rat) (f g : List Bool → Rat) (χ : List Bool) :
    coeff n (fun s => a * f s + b * g s) χ = a * coeff n f χ + b * coeff n g χ := by
  unfold coeff
  induction (allVecs n) with
  | nil => simp [sumR]; grind
  | cons x xs ih => simp only [sumR, List.map_cons, List.foldr_cons] at ih ⊢; rw [ih]; grind

theorem demBias_cons (p : Rat) (e : List Bool) (es : List (Rat × List Bool)) (χ : List Bool) :
    demBias ((p, e) :: es) χ = (if dotOdd χ e then 1 - 2 * p else 1) * demBias es χ := by
  unfold demBias
  simp only [List.foldl_cons]
  have gen : ∀ (l : List (Rat × List Bool)) (a : Rat),
      l.foldl (fun acc (x : Rat × List Bool) => if dotOdd χ x.2 then acc * (1 - 2 * x.1) else acc) a
        = a * l.foldl (fun acc (x : Rat × List Bool) => if dotOdd χ x.2 then acc * (1 - 2 * x.1) else acc) 1 := by
    intro l
    induction l with
    | nil => intro a; simp
    | cons x xs ih =>
      intro a
      simp only [List.foldl_cons]
      rw [ih (if dotOdd χ x.2 = true then a * (1 - 2 * x.1) else a), ih (if dotOdd χ x.2 = true then 1 * (1 - 2 * x.1) else 1)]
      split <;> grind
  rw [gen es]
  split <;> grind

/-- **The model's bias formula is the Fourier coefficient of the distribution "XOR of independently fired errors".**
    Together with `eq_of_coeffs_eq`: two models with the same bias for every character sample the same distribution. -/
theorem demBias_is_coefficient (n : Nat) : ∀ (errs : List (Rat × List Bool)) (χ : List Bool),
    (∀ pe ∈ errs, pe.2 ∈ allVecs n) → χ ∈ allVecs n → coeff n (demDist errs) χ = demBias errs χ
  | [], χ, _, hχ => by
    simp only [demDist, demBias, List.foldl_nil]
    exact coeff_delta n χ hχ
  | (p, e) :: es, χ, he, hχ => by
    have he0 : e ∈ allVecs n := he (p, e) (List.mem_cons_self ..)
    have ih := demBias_is_coefficient n es χ (fun x hx => he x (List.mem_cons_of_mem _ hx)) hχ
    simp only [demDist]
    rw [coeff_lin, coeff_shift n (demDist es) e χ he0 hχ, ih, demBias_cons]
    cases dotOdd χ e <;> simp [sgn] <;> grind

end Stim.Fourier

/-! ## The circuit side: independent applications of channels with mutually exclusive outcomes -/
namespace Stim.Fourier
open Stim

/-- total probability of the listed outcomes -/
def massOf (app : ResolvedApp) : Rat := sumR (app.map (·.1))

/-- the mixture a channel application performs on a distribution `d`: nothing with the remaining probability, or one outcome -/
def applyApp (app : ResolvedApp) (d : List Bool → Rat) : List Bool → Rat :=
  fun s => (1 - massOf app) * d s + sumR (app.map fun o => o.1 * d (xorVec s o.2))

/-- distribution of the XOR of the outcomes of independent applications -/
def appsDist : List ResolvedApp → List Bool → Rat
  | [] => fun s => if s.all (! ·) then 1 else 0
  | a :: as => applyApp a (appsDist as)

theorem coeff_add (n : Nat) (f g : List Bool → Rat) (χ : List Bool) :
    coeff n (fun s => f s + g s) χ = coeff n f χ + coeff n g χ := by
  have := coeff_lin n 1 1 f g χ
  simp only [Rat.one_mul] at this
  exact this

theorem coeff_smul (n : Nat) (a : Rat) (f : List Bool → Rat) (χ : List Bool) :
    coeff n (fun s => a * f s) χ = a * coeff n f χ := by
  have := coeff_lin n a 0 f f χ
  have h : (fun s => a * f s + 0 * f s) = fun s => a * f s := by funext s; grind
  rw [h] at this; rw [this]; grind

/-- coefficient of the "one of the outcomes" part -/
theorem coeff_outcomes (n : Nat) (d : List Bool → Rat) (χ : List Bool) (hχ : χ ∈ allVecs n) :
    ∀ (app : ResolvedApp), (∀ o ∈ app, o.2 ∈ allVecs n) →
      coeff n (fun s => sumR (app.map fun o => o.1 * d (xorVec s o.2))) χ
        = sumR (app.map fun o => o.1 * sgn (dotOdd χ o.2)) * coeff n d χ
  | [], _ => by
    simp only [List.map_nil, sumR, List.foldr_nil]
    have := coeff_smul n 0 d χ
    have h : (fun s => (0 : Rat) * d s) = fun _ => (0 : Rat) := by funext s; grind
    rw [h] at this; rw [this]
  | o :: os, h => by
    have ih := coeff_outcomes n d χ hχ os (fun x hx => h x (List.mem_cons_of_mem _ hx))
    have ho := h o (List.mem_cons_self ..)
    simp only [List.map_cons, sumR, List.foldr_cons]
    have hsplit : (fun s => o.1 * d (xorVec s o.2) + List.foldr (fun x1 x2 => x1 + x2) 0 (os.map fun o => o.1 * d (xorVec s o.2)))
        = fun s => (fun s => o.1 * d (xorVec s o.2)) s + (fun s => sumR (os.map fun o => o.1 * d (xorVec s o.2))) s := by
      funext s; rfl
    rw [hsplit, coeff_add, ih, coeff_smul, coeff_shift n d o.2 χ ho hχ]
    simp only [sumR]; grind

theorem appBias_eq (app : ResolvedApp) (χ : List Bool) :
    appBias app χ = (1 - massOf app) + sumR (app.map fun o => o.1 * sgn (dotOdd χ o.2)) := by
  unfold appBias massOf
  have gen : ∀ (l : ResolvedApp) (a : Rat),
      l.foldl (fun acc (x : Rat × List Bool) => if dotOdd χ x.2 then acc + x.1 else acc) a
        = a + l.foldl (fun acc (x : Rat × List Bool) => if dotOdd χ x.2 then acc + x.1 else acc) 0 := by
    intro l
    induction l with
    | nil => intro a; simp; grind
    | cons x xs ih =>
      intro a
      simp only [List.foldl_cons]
      rw [ih (if dotOdd χ x.2 = true then a + x.1 else a), ih (if dotOdd χ x.2 = true then 0 + x.1 else 0)]
      split <;> grind
  induction app with
  | nil => simp [sumR]; grind
  | cons o os ih =>
    simp only [List.foldl_cons, List.map_cons, sumR, List.foldr_cons] at ih ⊢
    rw [gen os]
    cases hd : dotOdd χ o.2
    · have hs : sgn false = 1 := rfl
      simp only [Bool.false_eq_true, if_false, hs]
      grind
    · have hs : sgn true = -1 := rfl
      simp only [if_true, hs]
      grind

/-- **The product of application biases is the Fourier coefficient of the circuit's noise distribution** (independent
    applications, each with mutually exclusive outcomes). -/
theorem appsBias_is_coefficient (n : Nat) : ∀ (apps : List ResolvedApp) (χ : List Bool),
    (∀ a ∈ apps, ∀ o ∈ a, o.2 ∈ allVecs n) → χ ∈ allVecs n →
    coeff n (appsDist apps) χ = apps.foldr (fun a acc => appBias a χ * acc) 1
  | [], χ, _, hχ => by
    simp only [appsDist, List.foldr_nil]
    exact coeff_delta n χ hχ
  | a :: as, χ, h, hχ => by
    have ih := appsBias_is_coefficient n as χ (fun x hx => h x (List.mem_cons_of_mem _ hx)) hχ
    have ha := h a (List.mem_cons_self ..)
    simp only [appsDist, List.foldr_cons]
    unfold applyApp
    have hsplit : (fun s => (1 - massOf a) * appsDist as s + sumR (a.map fun o => o.1 * appsDist as (xorVec s o.2)))
        = fun s => (fun s => (1 - massOf a) * appsDist as s) s + (fun s => sumR (a.map fun o => o.1 * appsDist as (xorVec s o.2))) s := by
      funext s; rfl
    rw [hsplit, coeff_add, coeff_smul, coeff_outcomes n (appsDist as) χ hχ a ha, ih, appBias_eq]
    grind

end Stim.Fourier

namespace Stim.Fourier
open Stim

theorem foldl_mul_eq_foldr (χ : List Bool) : ∀ (apps : List ResolvedApp) (a : Rat),
    apps.foldl (fun acc x => acc * appBias x χ) a = a * apps.foldr (fun x acc => appBias x χ * acc) 1
  | [], a => by simp
  | x :: xs, a => by
    simp only [List.foldl_cons, List.foldr_cons]
    rw [foldl_mul_eq_foldr χ xs (a * appBias x χ)]
    grind

/-- **What the oracle evaluates is the Fourier coefficient of the circuit's noise distribution** (deterministic detectors: no gauge
    directions): `circuitBias apps [] χ` is the coefficient at `χ` of the XOR of the independent channel applications. -/
theorem circuitBias_is_coefficient (n : Nat) (apps : List ResolvedApp) (χ : List Bool)
    (h : ∀ a ∈ apps, ∀ o ∈ a, o.2 ∈ allVecs n) (hχ : χ ∈ allVecs n) :
    circuitBias apps [] χ = coeff n (appsDist apps) χ := by
  rw [appsBias_is_coefficient n apps χ h hχ]
  unfold circuitBias
  simp only [List.any_nil, Bool.false_eq_true, if_false]
  rw [foldl_mul_eq_foldr]; grind

/-- **Soundness of the distribution oracle, stated in one place**: if the circuit's bias and the model's bias agree on every
    character, the circuit's noise (independent applications) and the model (independent errors) have the same distribution of
    detector/observable flips. -/
theorem same_distribution_of_same_bias (n : Nat) (apps : List ResolvedApp) (errs : List (Rat × List Bool))
    (ha : ∀ a ∈ apps, ∀ o ∈ a, o.2 ∈ allVecs n) (he : ∀ pe ∈ errs, pe.2 ∈ allVecs n)
    (h : ∀ χ ∈ allVecs n, circuitBias apps [] χ = demBias errs χ) :
    ∀ s ∈ allVecs n, appsDist apps s = demDist errs s := by
  apply eq_of_coeffs_eq n
  intro χ hχ
  rw [← circuitBias_is_coefficient n apps χ ha hχ, demBias_is_coefficient n errs χ he hχ]
  exact h χ hχ

end Stim.Fourier

namespace Stim.Fourier
open Stim

theorem dotOdd_zero_left : ∀ (n : Nat) (s : List Bool), dotOdd (List.replicate n false) s = false
  | 0, s => by cases s <;> simp [dotOdd]
  | n+1, [] => by simp [dotOdd]
  | n+1, b :: s => by
    rw [List.replicate_succ, dotOdd_cons, dotOdd_zero_left n s]; simp

/-- the coefficient at the zero character is the total mass -/
theorem coeff_zero_char (n : Nat) (f : List Bool → Rat) :
    coeff n f (List.replicate n false) = sumR ((allVecs n).map f) := by
  unfold coeff
  apply congrArg
  apply List.map_congr_left
  intro s _
  rw [dotOdd_zero_left]; simp [sgn]

/-- **The distribution of a detector error model has total mass 1**, whatever the probabilities and symptoms. -/
theorem demDist_total_mass (n : Nat) (errs : List (Rat × List Bool)) (he : ∀ pe ∈ errs, pe.2 ∈ allVecs n) :
    sumR ((allVecs n).map (demDist errs)) = 1 := by
  rw [← coeff_zero_char, demBias_is_coefficient n errs _ he (mem_allVecs_of_length n _ (by simp))]
  clear he
  induction errs with
  | nil => simp [demBias]
  | cons pe es ih =>
    obtain ⟨p, e⟩ := pe
    rw [demBias_cons, dotOdd_zero_left, ih]
    simp

end Stim.Fourier
