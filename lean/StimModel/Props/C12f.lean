import StimModel.Props.C12e
/-!
# C12 / C11 (continued): two-qubit inverses on strings, and whole-circuit inverses

`conj2_undo`: a two-qubit letter table followed by a table that undoes it on letter pairs is the identity on strings of any
length, for any two distinct in-range positions.  `gate2_inverse_undoes`: instantiated with the regenerated gate table's
recorded inverse ids (`table_inverse2`).
-/
namespace Stim.C12
open Stim

def Undo2 (a b : Act2) : Prop := ∀ p q : P1,
  ((a.f p q).1 + (b.f (a.f p q).2.1 (a.f p q).2.2).1) % 4 = 0
  ∧ (b.f (a.f p q).2.1 (a.f p q).2.2).2.1 = p ∧ (b.f (a.f p q).2.1 (a.f p q).2.2).2.2 = q

theorem undo2Check_sound (a b : Act2) (h : undo2Check a b = true) : Undo2 a b := by
  intro p q
  unfold undo2Check at h
  rw [List.all_eq_true] at h
  have h1 := h p (P1.mem_all p)
  rw [List.all_eq_true] at h1
  have h2 := h1 q (P1.mem_all q)
  simp only [Bool.and_eq_true, beq_iff_eq] at h2
  exact ⟨h2.1.1, h2.1.2, h2.2⟩

theorem getD_set_same (l : List P1) (i : Nat) (v : P1) (h : i < l.length) : (l.set i v).getD i .I = v := by
  simp [List.getD, h]

theorem getD_set_other (l : List P1) (i j : Nat) (v : P1) (h : i ≠ j) : (l.set i v).getD j .I = l.getD j .I := by
  simp [List.getD, List.getElem?_set_ne h]

theorem conj2_undo (a b : Act2) (h : Undo2 a b) (p k : Nat) (s : PS) (hpk : p ≠ k) (hp : p < s.ps.length)
    (hk : k < s.ps.length) (hph : s.ph < 4) : conj2 b p k (conj2 a p k s) = s := by
  cases s with
  | mk ph ps =>
    simp only at hp hk hph
    have hx : (((ps.set p (a.f (ps.getD p .I) (ps.getD k .I)).2.1).set k (a.f (ps.getD p .I) (ps.getD k .I)).2.2).getD p .I)
        = (a.f (ps.getD p .I) (ps.getD k .I)).2.1 := by
      rw [getD_set_other _ k p _ (by omega), getD_set_same _ p _ hp]
    have hy : (((ps.set p (a.f (ps.getD p .I) (ps.getD k .I)).2.1).set k (a.f (ps.getD p .I) (ps.getD k .I)).2.2).getD k .I)
        = (a.f (ps.getD p .I) (ps.getD k .I)).2.2 := by
      rw [getD_set_same _ k _ (by simpa using hk)]
    obtain ⟨h1, h2, h3⟩ := h (ps.getD p .I) (ps.getD k .I)
    simp only [conj2, hx, hy, h2, h3, PS.mk.injEq]
    refine ⟨by omega, ?_⟩
    apply List.ext_getElem
    · simp
    · intro i hi1 hi2
      simp only [List.getElem_set]
      by_cases hik : k = i
      · subst hik; simp [List.getD, hk]
      · by_cases hip : p = i
        · subst hip; simp [hik, List.getD, hp]
        · simp [hik, hip]

theorem gate2_inverse_undoes (g h : GateRow) (hg : g ∈ twoQubitUnitaries) (hh : inverseRow g = some h) (p k : Nat) (s : PS)
    (hpk : p ≠ k) (hp : p < s.ps.length) (hk : k < s.ps.length) (hph : s.ph < 4) :
    conj2 (act2 h) p k (conj2 (act2 g) p k s) = s := by
  have hall := table_inverse2
  rw [List.all_eq_true] at hall
  have := hall g hg
  rw [hh] at this
  simp only [Bool.and_eq_true] at this
  exact conj2_undo _ _ (undo2Check_sound _ _ this.2) p k s hpk hp hk hph

example : (inverseRow Gen.g_CXSWAP).map (·.name) = some "SWAPCX" := by decide

end Stim.C12
