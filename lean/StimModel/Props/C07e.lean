import StimModel.Props.C07d
/-!
# C07 (continued): whole flat circuit files read back exactly, fusion included

A *flat plain* program is a list of instructions without parenthesised arguments and without blocks, each one a gate of the
compiled gate table with a tag and well-formed targets its validation accepts.  For every such program, of any length:

* `flat_round_trip` : the text made of the printed lines, each followed by a line feed, is read back by the whole-file parser
  `parseText` as exactly the program **after the documented fusion** (`fuseList`: adjacent fusable instructions with equal gate
  and tag merge their target lists), with nothing left over;
* `printOps_lines` : that text is what the model printer `printOps 0` writes, plus the final line feed.

The proof chains `instr_round_trip` (C07d) over the lines; the parser's accumulator is the reversed prefix of the fused
program at every step (`flat_go`).
-/
namespace Stim.C07
open Stim Stim.Text

/-- a program line this file talks about -/
structure PlainInstr where
  g : GateRow
  tag : List Nat
  ts : List Nat

def PlainInstr.op (p : PlainInstr) : TOp := .instr p.g.name p.tag [] p.ts

def PlainInstr.Ok (p : PlainInstr) : Prop :=
  p.g ∈ Gen.gates ∧ p.g.has 5 = false ∧ (∀ t ∈ p.ts, WfTarget t) ∧ validate p.g [] p.ts = true

/-- the printed lines, each terminated by a line feed -/
def linesOf : List PlainInstr → List Nat
  | [] => []
  | p :: ps => printInstr p.g.name p.tag [] p.ts ++ 10 :: linesOf ps

def nameHeadOk (g : GateRow) : Bool :=
  match bytesOf g.name with
  | c :: _ => !isSpaceC c && c != 35 && c != 125
  | [] => false

theorem name_heads_ok : Gen.gates.all nameHeadOk = true := by decide +kernel

theorem skipDead_id (f : Nat) (c : Nat) (cs : List Nat) (h1 : isSpaceC c = false) (h2 : (c == 35) = false) :
    skipDead (f + 1) (c :: cs) = c :: cs := by
  simp [skipDead, h1, h2]

theorem fuseList_plain (p : PlainInstr) (ps : List TOp) (acc : List TOp) :
    fuseList (p.op :: ps) acc = fuseList ps (pushFused acc p.op) := by
  simp [fuseList, PlainInstr.op, fuseOp]

/-- the parser loop over printed lines: the accumulator goes through the same states as the fusion -/
theorem flat_go : ∀ (ps : List PlainInstr), (∀ p ∈ ps, p.Ok) → ∀ (acc : List TOp) (f : Nat), ps.length < f →
    parseOpsGo f false (linesOf ps) acc = .ok (fuseList (ps.map PlainInstr.op) acc) []
  | [], _, acc, f, hf => by
    cases f with
    | zero => omega
    | succ f => simp [linesOf, parseOpsGo, skipDead, fuseList]
  | p :: ps, hok, acc, f, hf => by
    cases f with
    | zero => omega
    | succ f =>
      have hp : p.Ok := hok p (by simp)
      obtain ⟨hg, hblock, hwf, hval⟩ := hp
      have hps : ∀ q ∈ ps, q.Ok := fun q hq => hok q (by simp [hq])
      have hlen : ps.length < f := by simpa using hf
      have ih := flat_go ps hps (pushFused acc p.op) f hlen
      have hrt := instr_round_trip p.g hg hblock p.tag [] (.inl rfl) p.ts hwf hval (linesOf ps)
      have hh := name_heads_ok
      rw [List.all_eq_true] at hh
      have hhg := hh p.g hg
      -- the first byte of the line
      have hline : ∃ c cs, printInstr p.g.name p.tag [] p.ts ++ 10 :: linesOf ps = c :: cs ∧
          isSpaceC c = false ∧ (c == 35) = false ∧ c ≠ 125 := by
        unfold nameHeadOk at hhg
        split at hhg
        · rename_i c cs hb
          refine ⟨c, cs ++ (printTag p.tag ++ (printTargets false p.ts ++ 10 :: linesOf ps)), ?_, ?_⟩
          · simp [printInstr, hb]
          · simp only [Bool.and_eq_true, Bool.not_eq_true', bne_iff_ne, ne_eq] at hhg
            refine ⟨hhg.1.1, ?_, hhg.2⟩
            simpa using hhg.1.2
        · cases hhg
      obtain ⟨c, cs, hcs, hsp, hhash, hbrace⟩ := hline
      have hlines : linesOf (p :: ps) = c :: cs := by simp [linesOf, hcs]
      rw [hlines]
      unfold parseOpsGo
      simp only [List.length_cons, skipDead_id _ c cs hsp hhash]
      have hrt' : parseInstrLine (c :: cs) = .ok (p.g, p.tag, [], p.ts) (10 :: linesOf ps) := by
        rw [← hcs]; exact hrt
      split
      · rename_i h; cases h
      · rename_i rest h
        simp only [List.cons.injEq] at h
        exact absurd h.1 hbrace
      · simp only [hrt', hblock, Bool.false_eq_true, if_false, List.drop_succ_cons, List.drop_zero]
        rw [List.map_cons, fuseList_plain]
        exact ih

/-- **A flat plain circuit file reads back as its fused program**, whatever its length. -/
theorem flat_round_trip (ps : List PlainInstr) (hok : ∀ p ∈ ps, p.Ok) :
    parseText (linesOf ps) = .ok (fuseList (ps.map PlainInstr.op) []) [] := by
  unfold parseText
  apply flat_go ps hok
  -- every line has at least the line feed
  have : ∀ qs : List PlainInstr, qs.length ≤ (linesOf qs).length := by
    intro qs
    induction qs with
    | nil => simp [linesOf]
    | cons q qs ih => simp only [linesOf, List.length_append, List.length_cons]; omega
  have := this ps
  omega

/-- the text of `flat_round_trip` is the model printer's output plus the final line feed -/
theorem printOps_lines : ∀ (ps : List PlainInstr), ps ≠ [] → printOps 0 (ps.map PlainInstr.op) ++ [10] = linesOf ps
  | [], h => absurd rfl h
  | [p], _ => by simp [printOps, printOp, PlainInstr.op, linesOf]
  | p :: q :: ps, _ => by
    have ih := printOps_lines (q :: ps) (by simp)
    simp only [List.map_cons] at ih ⊢
    simp only [printOps, printOp, PlainInstr.op, linesOf, List.replicate_zero, List.nil_append, List.append_assoc,
      List.cons_append] at ih ⊢
    rw [ih]

/-- non-vacuity: `H 0` / `H 5` / `M 0` reads back as `H 0 5` / `M 0` -/
example : parseText (linesOf [⟨Gen.g_H, [], [0 + 0 * XB + 0 * ZB + 0 * INV]⟩, ⟨Gen.g_H, [], [5 + 0 * XB + 0 * ZB + 0 * INV]⟩,
      ⟨Gen.g_M, [], [0 + 0 * XB + 0 * ZB + 0 * INV]⟩])
    = .ok [.instr "H" [] [] [0 + 0 * XB + 0 * ZB + 0 * INV, 5 + 0 * XB + 0 * ZB + 0 * INV],
           .instr "M" [] [] [0 + 0 * XB + 0 * ZB + 0 * INV]] [] := by
  have h := flat_round_trip [⟨Gen.g_H, [], [0 + 0 * XB + 0 * ZB + 0 * INV]⟩, ⟨Gen.g_H, [], [5 + 0 * XB + 0 * ZB + 0 * INV]⟩,
      ⟨Gen.g_M, [], [0 + 0 * XB + 0 * ZB + 0 * INV]⟩] (by
    intro p hp
    simp only [List.mem_cons, List.mem_nil_iff, or_false] at hp
    rcases hp with rfl | rfl | rfl <;>
      refine ⟨by decide, by decide, ?_, by decide +kernel⟩ <;>
      · intro t ht
        simp only [List.mem_cons, List.mem_nil_iff, or_false] at ht
        subst ht
        first
          | exact .qubit 0 0 0 0 (by decide) (by decide) (by decide) (by decide)
          | exact .qubit 5 0 0 0 (by decide) (by decide) (by decide) (by decide))
  rw [h]
  rfl

end Stim.C07
