import StimModel.Model.FSim
/-!
# C04 — detection events and observables are the declared parities of measurements

The specification-level evaluator `parities` (XOR of the looked-back bits of a given measurement-flip vector) is what the
correspondence applies to the measurement record of the *same shot* the implementation reported detection events for.
-/
namespace Stim.C04
open Stim

/-- a detector with no targets never fires; one looking back at a single bit reports exactly that bit -/
theorem empty_detector (bits : List Bool) :
    (parities [.instr "M" "" [] [⟨0⟩], .instr "DETECTOR" "" [] []] bits).1 = [false] := by
  simp [parities, Circuit.unroll, unrollList, unrollOp, paritiesGo]

/-- duplicate lookbacks cancel (XOR semantics) -/
example : (parities [.instr "M" "" [] [⟨0⟩], .instr "DETECTOR" "" [] [⟨2^28 + 1⟩, ⟨2^28 + 1⟩]] [true]).1 = [false] := by decide
example : (parities [.instr "M" "" [] [⟨0⟩, ⟨1⟩], .instr "DETECTOR" "" [] [⟨2^28 + 1⟩, ⟨2^28 + 2⟩]] [true, false]).1 = [true] := by decide

/-- the observable accumulator is an XOR: including the same parity twice cancels (instances) -/
example : xorObs (xorObs [(0, false), (3, true)] 3 true) 3 true = [(0, false), (3, true)] := by decide
example : xorObs [] 5 true = [(5, true)] := by decide

/-- `parities` reads only the record: the detector bits of a circuit depend on the measurement bits alone -/
theorem parities_deterministic (c : Circuit) (b1 b2 : List Bool) (h : b1 = b2) : parities c b1 = parities c b2 := by
  rw [h]

end Stim.C04

/-! ### Detection events are GF(2)-linear in the measurement record

`m2d` of a sample is compared through `m2d(sample) ⊕ m2d(reference) = parities(sample ⊕ reference)`; this is that identity. -/
namespace Stim.C04
open Stim

def xv (a b : List Bool) : List Bool := List.zipWith (· != ·) a b

theorem xv_getD : ∀ (a b : List Bool) (i : Nat), a.length = b.length →
    (xv a b).getD i false = (a.getD i false != b.getD i false)
  | [], [], i, _ => by simp [xv]
  | [], _ :: _, _, h => by simp at h
  | _ :: _, [], _, h => by simp at h
  | x :: xs, y :: ys, 0, _ => by simp [xv]
  | x :: xs, y :: ys, i+1, h => by
    have := xv_getD xs ys i (by simpa using h)
    simpa [xv] using this

theorem xv_append_single (da db : List Bool) (pa pb : Bool) (h : da.length = db.length) :
    xv (da ++ [pa]) (db ++ [pb]) = xv da db ++ [pa != pb] := by
  unfold xv
  rw [List.zipWith_append h]
  simp

theorem fold_lin (ts : List Target) (la lb lab : Target → Bool) (h : ∀ t, lab t = (la t != lb t)) :
    ∀ (xa xb : Bool),
      ts.foldl (fun acc t => if t.isRec then acc != lab t else acc) (xa != xb)
        = (ts.foldl (fun acc t => if t.isRec then acc != la t else acc) xa != ts.foldl (fun acc t => if t.isRec then acc != lb t else acc) xb) := by
  induction ts with
  | nil => intro xa xb; simp
  | cons t ts ih =>
    intro xa xb
    simp only [List.foldl_cons]
    by_cases hr : t.isRec = true
    · simp only [hr, if_true]
      rw [h t]
      have : ((xa != xb) != (la t != lb t)) = ((xa != la t) != (xb != lb t)) := by
        cases xa <;> cases xb <;> cases la t <;> cases lb t <;> rfl
      rw [this]
      exact ih _ _
    · have hr' : t.isRec = false := by simpa using hr
      simp only [hr', Bool.false_eq_true, if_false]
      exact ih _ _

/-- the detector part of `paritiesGo` is linear in (record, accumulated detectors), whatever the observable accumulators are -/
theorem paritiesGo_linear : ∀ (ops : List Op) (k : Nat) (a b da db : List Bool)
    (o1 o2 o3 : List (Nat × Bool)) (p1 p2 p3 : List Nat),
    a.length = b.length → da.length = db.length →
    (paritiesGo ops k (xv a b) (xv da db) o1 p1).1 = xv (paritiesGo ops k a da o2 p2).1 (paritiesGo ops k b db o3 p3).1
  | [], _, _, _, _, _, _, _, _, _, _, _, _, _ => by simp [paritiesGo]
  | .rep _ _ _ :: os, k, a, b, da, db, o1, o2, o3, p1, p2, p3, h, hd => by
    simp only [paritiesGo]
    exact paritiesGo_linear os k a b da db o1 o2 o3 p1 p2 p3 h hd
  | .instr g tag args ts :: os, k, a, b, da, db, o1, o2, o3, p1, p2, p3, h, hd => by
    simp only [paritiesGo]
    split
    · -- DETECTOR
      have hlook : ∀ t : Target,
          (if t.value == 0 || t.value > k then false else (xv a b).getD (k - t.value) false)
            = ((if t.value == 0 || t.value > k then false else a.getD (k - t.value) false)
               != (if t.value == 0 || t.value > k then false else b.getD (k - t.value) false)) := by
        intro t
        split
        · rfl
        · exact xv_getD a b _ h
      have hfold := fold_lin ts _ _ _ hlook false false
      simp only [show (false != false) = false by rfl] at hfold
      rw [hfold, ← xv_append_single da db _ _ hd]
      exact paritiesGo_linear os k a b _ _ o1 o2 o3 p1 p2 p3 h (by simp [hd])
    · split
      · exact paritiesGo_linear os k a b da db _ _ _ _ _ _ h hd
      · exact paritiesGo_linear os _ a b da db o1 o2 o3 p1 p2 p3 h hd

/-- **Detection events of the XOR of two records are the XOR of their detection events.** -/
theorem detectors_linear (c : Circuit) (a b : List Bool) (h : a.length = b.length) :
    (parities c (xv a b)).1 = xv (parities c a).1 (parities c b).1 := by
  unfold parities
  have := paritiesGo_linear c.unroll 0 a b [] [] [] [] [] [] [] [] h rfl
  simpa [xv] using this

example :
    let c : Circuit := [.instr "M" "" [] [⟨0⟩, ⟨1⟩, ⟨2⟩], .instr "DETECTOR" "" [] [⟨2^28 + 1⟩, ⟨2^28 + 3⟩], .instr "DETECTOR" "" [] [⟨2^28 + 2⟩]]
    (parities c (xv [true, false, true] [true, true, false])).1 = xv (parities c [true, false, true]).1 (parities c [true, true, false]).1 :=
  detectors_linear _ _ _ rfl

end Stim.C04
