import StimModel.Model.FSim
/-!
# C04 — detection events and observables are the declared parities of measurements

The specification-level evaluator `parities` (XOR of the looked-back bits of a given measurement-flip vector) is what the
correspondence applies to the measurement record of the *same shot* the implementation reported detection events for.
-/
namespace Stim.C04
open Stim

/-- a detector with no targets never fires; one looking back at a single bit reports exactly that bit -/
theorem empty_detector (bits : List Bool) :
    (parities [.instr "M" "" [] [⟨0⟩], .instr "DETECTOR" "" [] []] bits).1 = [false] := by
  simp [parities, Circuit.unroll, unrollList, unrollOp, paritiesGo]

/-- duplicate lookbacks cancel (XOR semantics) -/
example : (parities [.instr "M" "" [] [⟨0⟩], .instr "DETECTOR" "" [] [⟨2^28 + 1⟩, ⟨2^28 + 1⟩]] [true]).1 = [false] := by decide
example : (parities [.instr "M" "" [] [⟨0⟩, ⟨1⟩], .instr "DETECTOR" "" [] [⟨2^28 + 1⟩, ⟨2^28 + 2⟩]] [true, false]).1 = [true] := by decide

/-- the observable accumulator is an XOR: including the same parity twice cancels (instances) -/
example : xorObs (xorObs [(0, false), (3, true)] 3 true) 3 true = [(0, false), (3, true)] := by decide
example : xorObs [] 5 true = [(5, true)] := by decide

/-- `parities` reads only the record: the detector bits of a circuit depend on the measurement bits alone -/
theorem parities_deterministic (c : Circuit) (b1 b2 : List Bool) (h : b1 = b2) : parities c b1 = parities c b2 := by
  rw [h]

end Stim.C04
