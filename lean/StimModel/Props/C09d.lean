import StimModel.Props.C09c
/-!
# C09 (continued): the `dets` record decoder only accepts indices inside their own section

A `dets` record names bits as `M<k>`, `D<k>`, `L<k>`: index `k` of the measurement, detector or observable section of the
record.  `decDetsBody` (the model of `MeasureRecordReaderFormatDets::start_and_read_entire_record_helper`, compared with the
implementation by the `fmt` area) decodes in one pass and keeps only the absolute bit positions.  `detsToks` reads the same
bytes into the list of `(prefix, k)` tokens without judging them.  Proved:

* `decDetsBody_sound` : whenever the decoder accepts a record body, the body is a well-formed token list, **every token's index is
  below the length of the section its prefix names**, and the hits are exactly `offset(prefix) + k` in order;
* `decDetsBody_hits_lt` : so every decoded position is inside the record (`< m + d + l`), and more precisely inside its own
  section — an index such as `D7` with seven detectors is never read as the first observable;
* `decHitsGo_hits_lt` : the `hits` decoder only accepts indices below the record width.
-/
namespace Stim.C09
open Stim Stim.Fmt

/-- offset and length of the section a prefix letter names -/
def secOf (s : Split) (p : Nat) : Option (Nat × Nat) :=
  if p == 77 then some (0, s.m) else if p == 68 then some (s.m, s.d) else if p == 76 then some (s.m + s.d, s.l) else none

def stripCR (bytes : List Nat) : List Nat := match bytes with | c :: r => if c == CR then r else c :: r | [] => []

/-- the tokens of a record body, unjudged -/
def detsToks : Nat → List Nat → Option (List (Nat × Nat) × List Nat)
  | 0, _ => none
  | fuel+1, bytes =>
    match stripCR bytes with
    | [] => some ([], [])
    | c :: rest =>
      if c == NL then some ([], rest)
      else if c != SP then none
      else match rest with
        | [] => none
        | p :: rest1 =>
          match rest1 with
          | [] => none
          | dch :: _ =>
            if !isDigit dch then none else
            match readU64Go 0 rest1 with
            | none => none
            | some (v, after) => (detsToks fuel after).map fun (ts, r) => ((p, v) :: ts, r)

def tokHit (s : Split) (t : Nat × Nat) : Option Nat := (secOf s t.1).map (·.1 + t.2)

def TokOk (s : Split) (t : Nat × Nat) : Prop := ∃ off len, secOf s t.1 = some (off, len) ∧ t.2 < len

/-- one step of `decDetsBody` after the optional carriage return (a copy of its body, tied to it by `decDetsBody_succ`) -/
def decStep (s : Split) (fuel : Nat) (b : List Nat) (hits : List Nat) : Res (List Nat) :=
  match b with
  | [] => .ok hits []
  | c :: rest =>
    if c == NL then .ok hits rest
    else if c != SP then .err
    else match rest with
      | [] => .err
      | p :: rest1 =>
        match secOf s p with
        | none => .err
        | some (off, len) =>
          match rest1 with
          | [] => .err
          | dch :: _ =>
            if !isDigit dch then .err else
            match readU64Go 0 rest1 with
            | none => .err
            | some (v, after) => if v ≥ len then .err else decDetsBody s fuel after (hits ++ [off + v])

theorem decDetsBody_succ (s : Split) (fuel : Nat) (bytes hits : List Nat) :
    decDetsBody s (fuel + 1) bytes hits = decStep s fuel (stripCR bytes) hits := rfl

theorem decDetsBody_sound (s : Split) : ∀ (fuel : Nat) (bytes hits hs r : List Nat),
    decDetsBody s fuel bytes hits = .ok hs r →
    ∃ toks, detsToks fuel bytes = some (toks, r) ∧ (∀ t ∈ toks, TokOk s t) ∧ hs = hits ++ toks.filterMap (tokHit s)
  | 0, bytes, hits, hs, r, h => by simp [decDetsBody] at h
  | fuel+1, bytes, hits, hs, r, h => by
    rw [decDetsBody_succ] at h
    unfold detsToks
    generalize stripCR bytes = b at h ⊢
    unfold decStep at h
    cases b with
    | nil =>
      simp only [Res.ok.injEq] at h
      obtain ⟨rfl, rfl⟩ := h
      exact ⟨[], rfl, by simp, by simp⟩
    | cons c rest =>
      simp only at h ⊢
      by_cases hnl : (c == NL) = true
      · simp only [hnl, if_true, Res.ok.injEq] at h ⊢
        obtain ⟨rfl, rfl⟩ := h
        exact ⟨[], rfl, by simp, by simp⟩
      · simp only [hnl, Bool.false_eq_true, if_false] at h ⊢
        by_cases hsp : (c != SP) = true
        · simp [hsp] at h
        · simp only [hsp, Bool.false_eq_true, if_false] at h ⊢
          cases rest with
          | nil => simp at h
          | cons p rest1 =>
            simp only at h ⊢
            cases hsec : secOf s p with
            | none => simp [hsec] at h
            | some ol =>
              obtain ⟨off, len⟩ := ol
              simp only [hsec] at h
              cases rest1 with
              | nil => simp at h
              | cons dch tl =>
                simp only at h ⊢
                by_cases hd : (!isDigit dch) = true
                · simp [hd] at h
                · simp only [hd, Bool.false_eq_true, if_false] at h ⊢
                  cases hr : readU64Go 0 (dch :: tl) with
                  | none => simp [hr] at h
                  | some va =>
                    obtain ⟨v, after⟩ := va
                    simp only [hr] at h ⊢
                    by_cases hge : v ≥ len
                    · simp [hge] at h
                    · simp only [hge, if_false] at h
                      obtain ⟨toks, ht, hok, hhs⟩ := decDetsBody_sound s fuel after (hits ++ [off + v]) hs r h
                      refine ⟨(p, v) :: toks, by simp [ht], ?_, ?_⟩
                      · intro t htm
                        simp only [List.mem_cons] at htm
                        rcases htm with rfl | htm
                        · exact ⟨off, len, hsec, by omega⟩
                        · exact hok t htm
                      · simp [hhs, tokHit, hsec]

/-- every decoded bit position lies inside the record — and inside the section its prefix names -/
theorem decDetsBody_hits_lt (s : Split) (fuel : Nat) (bytes hs r : List Nat)
    (h : decDetsBody s fuel bytes [] = .ok hs r) : ∀ x ∈ hs, x < s.m + s.d + s.l := by
  obtain ⟨toks, _, hok, rfl⟩ := decDetsBody_sound s fuel bytes [] hs r h
  intro x hx
  simp only [List.nil_append, List.mem_filterMap] at hx
  obtain ⟨t, ht, hxt⟩ := hx
  obtain ⟨off, len, hsec, hlt⟩ := hok t ht
  simp only [tokHit, hsec, Option.map_some, Option.some.injEq] at hxt
  subst hxt
  unfold secOf at hsec
  split at hsec
  · simp only [Option.some.injEq, Prod.mk.injEq] at hsec; omega
  · split at hsec
    · simp only [Option.some.injEq, Prod.mk.injEq] at hsec; omega
    · split at hsec
      · simp only [Option.some.injEq, Prod.mk.injEq] at hsec; omega
      · cases hsec

/-- the rule at work: with seven detectors and four observables ` D7` is rejected, ` D6 L0` is bits 6 and 7 -/
example : decDetsBody ⟨0, 7, 4⟩ 10 [32, 68, 55, 10] [] = .err := by decide
example : decDetsBody ⟨0, 7, 4⟩ 10 [32, 68, 54, 32, 76, 48, 10] [] = .ok [6, 7] [] := by decide

/-- the `hits` decoder (`MeasureRecordReaderFormatHits`) likewise only accepts indices below the record width -/
theorem decHitsGo_hits_lt (n : Nat) : ∀ (fuel : Nat) (bytes : List Nat) (first : Bool) (hits hs r : List Nat),
    decHitsGo n fuel bytes first hits = .ok hs r → (∀ x ∈ hits, x < n) → ∀ x ∈ hs, x < n := by
  intro fuel bytes first hits
  fun_induction decHitsGo n fuel bytes first hits <;> intro hs r h hh <;> simp_all
  all_goals first
    | (obtain ⟨h1, _⟩ := h
       intro x hx
       rw [← h1] at hx
       simp (config := {zetaDelta := true}) at hx
       rcases hx with hx | hx
       · exact hh x hx
       · subst hx; assumption)
    | (refine (by assumption : (∀ x, x ∈ _ → x < n) → ∀ x, x ∈ hs → x < n) ?_
       intro x hx
       simp (config := {zetaDelta := true}) at hx
       rcases hx with hx | hx
       · exact hh x hx
       · subst hx; assumption)

end Stim.C09
