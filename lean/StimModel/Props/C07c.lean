import StimModel.Props.C07b
/-!
# C07 (continued): whole target lists read back exactly

`WfTarget d`: the target words the API can build — a qubit / Pauli target (plain or inverted), `rec[-k]`, `sweep[k]`, or the combiner.
Proved for every list of such targets, of any length:

* `wf_target_round_trip` : each printed target parses back to the same word, whatever non-digit byte follows;
* `printTarget_head` : a printed non-combiner target starts with a byte that cannot be taken for spacing, a comment, a line end or `{`;
* `targets_round_trip` : **`write_targets` followed by the end of the line is read back by the target loop of the instruction
  parser (`read_until_next_line_arg` + `read_single_gate_target`) as exactly the same list** — spaces between targets, none
  around combiners (`X1*Y2`), the loop stopping at the line feed without consuming it.
-/
namespace Stim.C07
open Stim Stim.Text

inductive WfTarget : Nat → Prop
  | qubit (q x z i : Nat) (hq : q < 2^24) (hx : x ≤ 1) (hz : z ≤ 1) (hi : i ≤ 1) : WfTarget (q + x * XB + z * ZB + i * INV)
  | recT (q : Nat) (hq : q < 2^24) : WfTarget (q + RECB)
  | sweepT (q : Nat) (hq : q < 2^24) : WfTarget (q + SWEEPB)
  | comb : WfTarget COMB

theorem wf_target_round_trip (d : Nat) (h : WfTarget d) (rest : List Nat) (hr : ∀ c, rest.head? = some c → isDigitC c = false) :
    parseTarget (printTarget d ++ rest) = some (d, rest) := by
  cases h with
  | qubit q x z i hq hx hz hi => exact target_round_trip q x z i hq hx hz hi rest hr
  | recT q hq => exact rec_round_trip q rest hq
  | sweepT q hq => exact sweep_round_trip q rest hq
  | comb => exact parse_combiner rest

/-- bytes that may begin a printed non-combiner target -/
def targetStart (c : Nat) : Bool := c == 33 || c == 88 || c == 89 || c == 90 || c == 114 || c == 115 || isDigitC c

theorem bytes_rec : bytesOf "rec[-" = [114, 101, 99, 91, 45] := by decide
theorem bytes_sweep : bytesOf "sweep[" = [115, 119, 101, 101, 112, 91] := by decide

theorem natDigits_head (n : Nat) : ∃ c cs, natDigits n = c :: cs ∧ targetStart c = true := by
  obtain ⟨d, ds, hd, hlt⟩ := natDigits_cons n
  refine ⟨d + 48, ds, hd, ?_⟩
  have : isDigitC (d + 48) = true := by simp [isDigitC]; omega
  simp [targetStart, this]

theorem printTarget_head (d : Nat) (h : WfTarget d) (hne : d ≠ COMB) : ∃ c cs, printTarget d = c :: cs ∧ targetStart c = true := by
  cases h with
  | qubit q x z i hq hx hz hi =>
    rw [printTarget_form q x z i hq hx hz hi]
    rcases Nat.le_one_iff_eq_zero_or_eq_one.mp hi with rfl | rfl
    · rcases Nat.le_one_iff_eq_zero_or_eq_one.mp hx with rfl | rfl
      · rcases Nat.le_one_iff_eq_zero_or_eq_one.mp hz with rfl | rfl
        · simpa [targetPrefix] using natDigits_head q
        · exact ⟨90, natDigits q, by simp [targetPrefix], by decide⟩
      · rcases Nat.le_one_iff_eq_zero_or_eq_one.mp hz with rfl | rfl
        · exact ⟨88, natDigits q, by simp [targetPrefix], by decide⟩
        · exact ⟨89, natDigits q, by simp [targetPrefix], by decide⟩
    · refine ⟨33, (if x == 1 || z == 1 then [if x == 1 && z == 1 then 89 else if x == 1 then 88 else 90] else []) ++ natDigits q, ?_, by decide⟩
      simp [targetPrefix]
  | recT q hq =>
    obtain ⟨h1, h2, h3, h4, h6, h7⟩ := bits_of_rec q hq
    have h7' : (q + RECB == COMB) = false := by simpa using h7
    unfold printTarget
    simp only [hasBit, h1, h2, h3, h4, h7']
    rw [bytes_rec]
    exact ⟨114, _, rfl, by decide⟩
  | sweepT q hq =>
    obtain ⟨h1, h2, h3, h4, h5, h6, h7⟩ := bits_of_sweep q hq
    have h7' : (q + SWEEPB == COMB) = false := by simpa using h7
    unfold printTarget
    simp only [hasBit, h1, h2, h3, h4, h5, h7']
    rw [bytes_sweep]
    exact ⟨115, _, rfl, by decide⟩
  | comb => exact absurd rfl hne


theorem targetStart_facts (c : Nat) (h : targetStart c = true) :
    (c == 42) = false ∧ (c == 32) = false ∧ (c == 9) = false ∧ (c == 13) = false ∧ (c == 35) = false ∧ (c == 10) = false ∧ (c == 123) = false := by
  simp only [targetStart, isDigitC, Bool.or_eq_true, beq_iff_eq, Bool.and_eq_true, decide_eq_true_eq] at h
  refine ⟨?_, ?_, ?_, ?_, ?_, ?_, ?_⟩ <;> (simp only [beq_eq_false_iff_ne, ne_eq]; omega)

/-- `read_until_next_line_arg` in front of a printed target (after optional single space) -/
theorem untilNextArg_space (need : Bool) (c : Nat) (cs : List Nat) (h : targetStart c = true) :
    untilNextArg need (32 :: c :: cs) = some (true, c :: cs) := by
  obtain ⟨h42, h32, h9, h13, h35, h10, h123⟩ := targetStart_facts c h
  simp [untilNextArg, untilNextArg.skipWs, h32, h9, h13]
  split
  · rename_i heq
    split at heq
    · rename_i h2; simp at h2; simp [h2.1] at h35
    · simp at heq
  · rename_i c1 tail heq
    split at heq
    · rename_i h2; simp at h2; simp [h2.1] at h35
    · simp at heq
      obtain ⟨rfl, rfl⟩ := heq
      simp
      exact ⟨by simpa using h10, by simpa using h123⟩

theorem untilNextArg_nospace (c : Nat) (cs : List Nat) (h : targetStart c = true) :
    untilNextArg false (c :: cs) = some (true, c :: cs) := by
  obtain ⟨h42, h32, h9, h13, h35, h10, h123⟩ := targetStart_facts c h
  have hne : c ≠ 42 := by simpa using h42
  unfold untilNextArg
  split
  · rename_i heq; simp at heq; exact absurd heq.1 hne
  · simp [untilNextArg.skipWs, h32, h9, h13]
    split
    · rename_i heq
      split at heq
      · rename_i h2; simp at h2; simp [h2.1] at h35
      · simp at heq
    · rename_i c1 tail heq
      split at heq
      · rename_i h2; simp at h2; simp [h2.1] at h35
      · simp at heq
        obtain ⟨rfl, rfl⟩ := heq
        simp
        exact ⟨by simpa using h10, by simpa using h123⟩

theorem untilNextArg_comb (need : Bool) (cs : List Nat) : untilNextArg need (42 :: cs) = some (true, 42 :: cs) := by
  simp [untilNextArg]

theorem untilNextArg_eol (need : Bool) (rest : List Nat) : untilNextArg need (10 :: rest) = some (false, 10 :: rest) := by
  simp [untilNextArg, untilNextArg.skipWs]

/-- first byte of what `write_targets` prints next is never a digit -/
theorem printTargets_head_nondigit (ts : List Nat) (rest : List Nat) :
    ∀ c, (printTargets false ts ++ 10 :: rest).head? = some c → isDigitC c = false := by
  intro c hc
  cases ts with
  | nil => simp [printTargets] at hc; subst hc; decide
  | cons t ts =>
    simp only [printTargets] at hc
    split at hc
    · rename_i ht
      have : t = COMB := by simpa using ht
      subst this
      simp [printTarget] at hc; subst hc; decide
    · simp at hc; subst hc; decide

/-- **A printed target list is read back exactly by the parser's target loop**, stopping at (and keeping) the line feed. -/
theorem targets_round_trip : ∀ (ts : List Nat), (∀ t ∈ ts, WfTarget t) → ∀ (rest : List Nat) (skip needSpace : Bool),
    (skip = true → needSpace = false) → ∀ (fuel : Nat), ts.length < fuel →
    parseTargetsGo fuel needSpace (printTargets skip ts ++ 10 :: rest) = some (ts, 10 :: rest)
  | [], _, rest, skip, need, _, fuel, hf => by
    cases fuel with
    | zero => simp at hf
    | succ f => simp [parseTargetsGo, printTargets, untilNextArg_eol]
  | t :: ts, hwf, rest, skip, need, hsn, fuel, hf => by
    cases fuel with
    | zero => simp at hf
    | succ f =>
      have hwt : WfTarget t := hwf t (by simp)
      have hwts : ∀ x ∈ ts, WfTarget x := fun x hx => hwf x (by simp [hx])
      have hlen : ts.length < f := by simpa using hf
      by_cases hc : t = COMB
      · subst hc
        have ih := targets_round_trip ts hwts rest true false (fun _ => rfl) f hlen
        have hp : printTargets skip (COMB :: ts) ++ 10 :: rest = 42 :: (printTargets true ts ++ 10 :: rest) := by
          simp [printTargets, printTarget]
        have hpt : parseTarget (42 :: (printTargets true ts ++ 10 :: rest)) = some (COMB, printTargets true ts ++ 10 :: rest) := by
          have := parse_combiner (printTargets true ts ++ 10 :: rest)
          simpa [printTarget] using this
        rw [hp]
        simp only [parseTargetsGo, untilNextArg_comb]
        simp [hpt, ih]
      · obtain ⟨c, cs, hpc, hstart⟩ := printTarget_head t hwt hc
        have ih := targets_round_trip ts hwts rest false true (fun h => by simp at h) f hlen
        have hne : (t == COMB) = false := by simpa using hc
        have hbne : (t != COMB) = true := by simp [hc]
        have hpt : parseTarget (c :: (cs ++ (printTargets false ts ++ 10 :: rest))) = some (t, printTargets false ts ++ 10 :: rest) := by
          have := wf_target_round_trip t hwt (printTargets false ts ++ 10 :: rest) (printTargets_head_nondigit ts rest)
          rw [hpc] at this
          simpa using this
        cases skip with
        | false =>
          have hp : printTargets false (t :: ts) ++ 10 :: rest = 32 :: c :: (cs ++ (printTargets false ts ++ 10 :: rest)) := by
            simp [printTargets, hne, hpc]
          rw [hp]
          simp only [parseTargetsGo, untilNextArg_space need c _ hstart]
          simp [hpt, hbne, ih]
        | true =>
          have hn : need = false := hsn rfl
          subst hn
          have hp : printTargets true (t :: ts) ++ 10 :: rest = c :: (cs ++ (printTargets false ts ++ 10 :: rest)) := by
            simp [printTargets, hne, hpc]
          rw [hp]
          simp only [parseTargetsGo, untilNextArg_nospace c _ hstart]
          simp [hpt, hbne, ih]

/-- non-vacuity: the hypotheses are met by `X1*rec[-3]`-like lists (here: `X1`, `*`, `rec[-3]`) -/
example : parseTargetsGo 10 true (printTargets false [1 + 1 * XB + 0 * ZB + 0 * INV, COMB, 3 + RECB] ++ 10 :: [])
    = some ([1 + 1 * XB + 0 * ZB + 0 * INV, COMB, 3 + RECB], 10 :: []) :=
  targets_round_trip _ (by
    intro t ht
    simp only [List.mem_cons, List.mem_nil_iff, or_false] at ht
    rcases ht with rfl | rfl | rfl
    · exact .qubit 1 1 0 0 (by decide) (by decide) (by decide) (by decide)
    · exact .comb
    · exact .recT 3 (by decide)) [] false true (by simp) 10 (by decide)

end Stim.C07
