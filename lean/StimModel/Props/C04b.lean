import StimModel.Props.C04
import StimModel.Props.C19
import StimModel.Props.GF2c
/-!
# C04 (continued): the detection-event oracle used for `stim detect` output

`stim detect` prints detection events without the measurement record, so the record oracle (`fsim shots`) cannot be applied.
The driver command `fsim dets` instead asks whether the printed detector bits lie in
`D(offset) + span { D(col) | col ∈ fault columns }`, where `D` maps a vector of measurement flips to the detector parities.
Proved here, for every circuit:

* `span_image`: a map that commutes with XOR sends the span of `vs` into the span of the images;
* `dets_of_possible_record`: if a shot's flips are `offset ⊕ s` with `s` in the span of the fault columns (this is what
  "possible record" means, C02), then `D(flips) ⊕ D(offset)` lies in the span of `{ D(col) }` —
  so the oracle accepts the detection events of every possible shot (no false alarm);
* `dets_oracle_accepts`: the executable check `gfMember (gfSpan (cols.map D)) ...` returns `true` on them (by `gfMember_iff`);
* `dets_oracle_sound`: conversely, anything the check accepts is `D(offset ⊕ s)` for some `s` in the span of the fault columns:
  accepted detection events are the detector parities of a possible record.
-/
namespace Stim.C04b
open Stim Stim.GF2

theorem xv_eq (a b : List Bool) : Stim.C04.xv a b = xv a b := rfl

/-- a XOR-homomorphism maps spans into spans -/
theorem span_image (n m : Nat) (vs : List (List Bool)) (f : List Bool → List Bool)
    (hzero : f (List.replicate n false) = List.replicate m false)
    (hlin : ∀ a b, a.length = n → b.length = n → f (xv a b) = xv (f a) (f b))
    (hlen : ∀ w ∈ vs, w.length = n) {v : List Bool} (h : InSpan n vs v) : InSpan m (vs.map f) (f v) := by
  induction h with
  | zero => rw [hzero]; exact InSpan.zero
  | add hv hw ih =>
    rw [hlin _ _ (span_length hlen hv) (hlen _ hw)]
    exact InSpan.add ih (List.mem_map_of_mem hw)

/-- detector part of `parities` -/
def D (c : Circuit) (flips : List Bool) : List Bool := (parities c flips).1

theorem D_length (c : Circuit) (a : List Bool) : (D c a).length = Stim.C19.detCount c.unroll :=
  Stim.C19.parities_detectors_length c a

theorem D_linear (c : Circuit) (a b : List Bool) (h : a.length = b.length) : D c (xv a b) = xv (D c a) (D c b) :=
  Stim.C04.detectors_linear c a b h

theorem xv_self_zero (a : List Bool) : xv a a = List.replicate a.length false := xv_self a

theorem D_zero (c : Circuit) (n : Nat) : D c (List.replicate n false) = List.replicate (Stim.C19.detCount c.unroll) false := by
  have h := D_linear c (List.replicate n false) (List.replicate n false) rfl
  have hz : xv (List.replicate n false) (List.replicate n false) = List.replicate n false := by
    have := xv_self_zero (List.replicate n false); simpa using this
  rw [hz] at h
  rw [h, xv_self_zero, D_length]

/-- xor with the same vector twice cancels -/
theorem xv_cancel (a b : List Bool) (h : a.length = b.length) : xv (xv a b) a = b := by
  rw [xv_comm a b, xv_assoc, xv_self_zero, h]
  exact xv_zero_right b

/-- **Detection events of a possible record are accepted (span form).** -/
theorem dets_of_possible_record (c : Circuit) (n : Nat) (cols : List (List Bool)) (hlen : ∀ w ∈ cols, w.length = n)
    (offset s : List Bool) (hoff : offset.length = n) (hs : InSpan n cols s) :
    InSpan (Stim.C19.detCount c.unroll) (cols.map (D c)) (xv (D c (xv offset s)) (D c offset)) := by
  have hsl := span_length hlen hs
  rw [D_linear c offset s (by rw [hoff, hsl])]
  rw [xv_cancel (D c offset) (D c s) (by rw [D_length, D_length])]
  exact span_image n _ cols (D c) (D_zero c n) (fun a b ha hb => D_linear c a b (by rw [ha, hb])) hlen hs

/-- **The executable oracle accepts the detection events of every possible record.** -/
theorem dets_oracle_accepts (c : Circuit) (n : Nat) (cols : List (List Bool)) (hlen : ∀ w ∈ cols, w.length = n)
    (offset s : List Bool) (hoff : offset.length = n) (hs : InSpan n cols s) :
    gfMember (gfSpan (cols.map (D c))) (xv (D c (xv offset s)) (D c offset)) = true := by
  have hin := dets_of_possible_record c n cols hlen offset s hoff hs
  have hl : ∀ w ∈ cols.map (D c), w.length = Stim.C19.detCount c.unroll := by
    intro w hw
    obtain ⟨x, _, rfl⟩ := List.mem_map.mp hw
    exact D_length c x
  exact (gfMember_iff _ _ hl _ (span_length hl hin)).mpr hin

/-- a span element of the images is the image of a span element -/
theorem span_preimage (n m : Nat) (vs : List (List Bool)) (f : List Bool → List Bool)
    (hzero : f (List.replicate n false) = List.replicate m false)
    (hlin : ∀ a b, a.length = n → b.length = n → f (xv a b) = xv (f a) (f b))
    (hlen : ∀ w ∈ vs, w.length = n) {u : List Bool} (h : InSpan m (vs.map f) u) : ∃ s, InSpan n vs s ∧ f s = u := by
  induction h with
  | zero => exact ⟨_, InSpan.zero, hzero⟩
  | add hv hw ih =>
    obtain ⟨s, hs, rfl⟩ := ih
    obtain ⟨x, hx, rfl⟩ := List.mem_map.mp hw
    exact ⟨xv s x, InSpan.add hs hx, hlin _ _ (span_length hlen hs) (hlen _ hx)⟩

/-- **What the oracle accepts are the detection events of a possible record.** -/
theorem dets_oracle_sound (c : Circuit) (n : Nat) (cols : List (List Bool)) (hlen : ∀ w ∈ cols, w.length = n)
    (offset d : List Bool) (hoff : offset.length = n) (hd : d.length = Stim.C19.detCount c.unroll)
    (h : gfMember (gfSpan (cols.map (D c))) (xv d (D c offset)) = true) :
    ∃ s, InSpan n cols s ∧ D c (xv offset s) = d := by
  have hl : ∀ w ∈ cols.map (D c), w.length = Stim.C19.detCount c.unroll := by
    intro w hw
    obtain ⟨x, _, rfl⟩ := List.mem_map.mp hw
    exact D_length c x
  have hlu : (xv d (D c offset)).length = Stim.C19.detCount c.unroll := by
    rw [xv_length _ _ (by rw [hd, D_length])]; exact hd
  have hin := (gfMember_iff _ _ hl _ hlu).mp h
  obtain ⟨s, hs, hfs⟩ := span_preimage n _ cols (D c) (D_zero c n) (fun a b ha hb => D_linear c a b (by rw [ha, hb])) hlen hin
  refine ⟨s, hs, ?_⟩
  rw [D_linear c offset s (by rw [hoff, span_length hlen hs]), hfs]
  -- xv (D offset) (xv d (D offset)) = d
  rw [xv_comm d (D c offset), ← xv_assoc, xv_self_zero]
  have := xv_zero_left_n (D c offset).length d (by rw [hd, D_length])
  exact this

example :
    let c : Circuit := [.instr "M" "" [] [⟨0⟩, ⟨1⟩], .instr "DETECTOR" "" [] [⟨2^28 + 1⟩, ⟨2^28 + 2⟩]]
    gfMember (gfSpan ([[true, false], [false, true]].map (D c))) (xv (D c (xv [false, false] [true, false])) (D c [false, false])) = true :=
  dets_oracle_accepts _ 2 _ (by decide) _ _ rfl (by
    have : xv (List.replicate 2 false) [true, false] = [true, false] := by decide
    rw [← this]; exact InSpan.add InSpan.zero (by decide))

end Stim.C04b

namespace Stim.C04b
open Stim Stim.GF2

/-! ## Observables are linear too -/

/-- value of observable `j` in the sparse accumulator (what the oracle reads) -/
def ov (obs : List (Nat × Bool)) (j : Nat) : Bool := ((obs.find? (·.1 == j)).map (·.2)).getD false

def tog (k : Nat) (b : Bool) (p : Nat × Bool) : Nat × Bool := if p.1 == k then (p.1, p.2 != b) else p

theorem tog_eq (k : Nat) (b : Bool) : (fun (x : Nat × Bool) => match x with | (i, v) => if i == k then (i, v != b) else (i, v)) = tog k b := by
  funext x; obtain ⟨i, v⟩ := x; simp [tog]

theorem tog_fst (k : Nat) (b : Bool) (p : Nat × Bool) : (tog k b p).1 = p.1 := by
  unfold tog; split <;> rfl

theorem find_map_toggle (obs : List (Nat × Bool)) (k j : Nat) (b : Bool) :
    ((obs.map (tog k b)).find? (·.1 == j)) = (obs.find? (·.1 == j)).map (tog k b) := by
  induction obs with
  | nil => simp
  | cons x xs ih =>
    simp only [List.map_cons, List.find?_cons, tog_fst]
    cases h : (x.1 == j) <;> simp [ih]

theorem ov_xorObs (obs : List (Nat × Bool)) (k j : Nat) (b : Bool) :
    ov (xorObs obs k b) j = (ov obs j != (decide (j = k) && b)) := by
  unfold xorObs
  split
  · rename_i hany
    rw [tog_eq]
    simp only [ov, find_map_toggle]
    cases hf : obs.find? (·.1 == j) with
    | none =>
      simp only [Option.map_none, Option.getD_none]
      by_cases hjk : j = k
      · subst hjk
        rw [List.find?_eq_none] at hf
        rw [List.any_eq_true] at hany
        obtain ⟨x, hx, hxk⟩ := hany
        exact absurd hxk (hf x hx)
      · simp [hjk]
    | some x =>
      obtain ⟨i, v⟩ := x
      have hij : i = j := by
        have := List.find?_some hf
        simpa using this
      subst hij
      by_cases hik : i = k
      · subst hik; simp [tog]
      · have : (i == k) = false := by simpa using hik
        simp [tog, this, hik]
  · rename_i hany
    have hno : obs.find? (·.1 == k) = none := by
      rw [List.find?_eq_none]
      intro x hx hxk
      exact hany (List.any_eq_true.mpr ⟨x, hx, hxk⟩)
    simp only [ov, List.find?_append]
    by_cases hjk : j = k
    · subst hjk
      simp [hno]
    · cases hf : obs.find? (·.1 == j) with
      | none =>
        have : (k == j) = false := by simp; omega
        simp [this, hjk]
      | some x => simp [hjk]

/-- the observable part of `paritiesGo` is linear in (record, accumulated observables) -/
theorem paritiesGo_obs_linear : ∀ (ops : List Op) (k : Nat) (a b d1 d2 d3 : List Bool)
    (o1 o2 o3 : List (Nat × Bool)) (p1 p2 p3 : List Nat),
    a.length = b.length → (∀ j, ov o1 j = (ov o2 j != ov o3 j)) →
    ∀ j, ov (paritiesGo ops k (Stim.C04.xv a b) d1 o1 p1).2.1 j
          = (ov (paritiesGo ops k a d2 o2 p2).2.1 j != ov (paritiesGo ops k b d3 o3 p3).2.1 j)
  | [], _, _, _, _, _, _, _, _, _, _, _, _, _, ho => by simpa [paritiesGo] using ho
  | .rep _ _ _ :: os, k, a, b, d1, d2, d3, o1, o2, o3, p1, p2, p3, h, ho => by
    simp only [paritiesGo]
    exact paritiesGo_obs_linear os k a b d1 d2 d3 o1 o2 o3 p1 p2 p3 h ho
  | .instr g tag args ts :: os, k, a, b, d1, d2, d3, o1, o2, o3, p1, p2, p3, h, ho => by
    simp only [paritiesGo]
    split
    · exact paritiesGo_obs_linear os k a b _ _ _ o1 o2 o3 p1 p2 p3 h ho
    · split
      · -- OBSERVABLE_INCLUDE
        have hlook : ∀ t : Target,
            (if t.value == 0 || t.value > k then false else (Stim.C04.xv a b).getD (k - t.value) false)
              = ((if t.value == 0 || t.value > k then false else a.getD (k - t.value) false)
                 != (if t.value == 0 || t.value > k then false else b.getD (k - t.value) false)) := by
          intro t
          split
          · rfl
          · exact Stim.C04.xv_getD a b _ h
        have hfold := Stim.C04.fold_lin ts _ _ _ hlook false false
        simp only [show (false != false) = false by rfl] at hfold
        apply paritiesGo_obs_linear os k a b d1 d2 d3 _ _ _ _ _ _ h
        intro j
        rw [ov_xorObs, ov_xorObs, ov_xorObs, ho j]
        rw [hfold]
        cases ov o2 j <;> cases ov o3 j <;> cases decide (j = _) <;> simp <;>
          (cases (List.foldl _ false ts) <;> cases (List.foldl _ false ts) <;> rfl)
      · exact paritiesGo_obs_linear os _ a b d1 d2 d3 o1 o2 o3 p1 p2 p3 h ho

/-- **Observable flips of the XOR of two records are the XOR of their observable flips** (record targets). -/
theorem observables_linear (c : Circuit) (a b : List Bool) (h : a.length = b.length) (j : Nat) :
    ov (parities c (Stim.C04.xv a b)).2.1 j = (ov (parities c a).2.1 j != ov (parities c b).2.1 j) := by
  unfold parities
  exact paritiesGo_obs_linear c.unroll 0 a b [] [] [] [] [] [] [] [] [] h (by intro j; simp [ov]) j

end Stim.C04b
