import StimModel.Props.C07e
/-!
# C07 (continued): circuit files with nested REPEAT blocks read back exactly, fusion included

`WfOps` describes the programs this file talks about: trees of instructions (any gate of the compiled table, any tag, any
argument list that reads back — `ArgsReadBack`, see C07d —, well-formed targets its validation accepts) and `REPEAT` blocks with a count in `1 … 2^63 − 1`, nested
to any depth.  For every such program:

* `block_round_trip` : the printed text (`linesOps 0`: four more spaces of indentation per level, `REPEAT[tag] n {`, the body, `}`)
  is read back by the whole-file parser `parseText` as exactly the program **after the documented fusion inside every block and
  at top level** (`fuseList`), with nothing left over;
* `printOps_linesOps` : when no block is empty, that text is the model printer's `printOps` output plus the final line feed.

The parser model runs on fuel; `go_ops` shows that the fuel `parseText` starts with (the length of the text + 2) is enough for
every program, by bounding the fuel a program needs (`wOps`) by the length of its text (`wOps_le_length`).
-/
namespace Stim.C07
open Stim Stim.Text

mutual
/-- the text of one operation, without its own indentation and without the terminating line feed -/
def lineOp (indent : Nat) : TOp → List Nat
  | .instr g tag args ts => printInstr g tag args ts
  | .rep n tag body =>
    bytesOf "REPEAT" ++ (printTag tag ++ 32 :: (natDigits n ++ 32 :: 123 :: 10 ::
      (linesOps (indent + 4) body ++ (List.replicate indent 32 ++ [125]))))
/-- every operation on its own line(s), indented, each terminated by a line feed -/
def linesOps (indent : Nat) : List TOp → List Nat
  | [] => []
  | o :: os => List.replicate indent 32 ++ (lineOp indent o ++ 10 :: linesOps indent os)
end

mutual
def WfOp : TOp → Prop
  | .instr name _ args ts =>
    ArgsReadBack args ∧ ∃ g, g ∈ Gen.gates ∧ g.name = name ∧ g.has 5 = false ∧ (∀ t ∈ ts, WfTarget t) ∧ validate g args ts = true
  | .rep n _ body => 0 < n ∧ n < 2 ^ 63 ∧ WfOps body
def WfOps : List TOp → Prop
  | [] => True
  | o :: os => WfOp o ∧ WfOps os
end

mutual
/-- fuel the block structure of an operation needs beyond one unit per operation of the enclosing list -/
def wOp : TOp → Nat
  | .instr _ _ _ _ => 0
  | .rep _ _ body => body.length + wOps body + 1
def wOps : List TOp → Nat
  | [] => 0
  | o :: os => wOp o + wOps os
end

/-- the parser's accumulator (reversed) after the operations `ops` -/
def accF : List TOp → List TOp → List TOp
  | [], acc => acc
  | o :: os, acc => accF os (pushFused acc (fuseOp o))

theorem fuseList_eq_accF : ∀ (ops acc : List TOp), fuseList ops acc = (accF ops acc).reverse
  | [], acc => by simp [fuseList, accF]
  | o :: os, acc => by simp only [fuseList, accF]; exact fuseList_eq_accF os _

/-! ### skipping dead space -/

theorem skipDead_ws : ∀ (ws : List Nat) (b : List Nat) (f : Nat), ws.all isSpaceC = true →
    skipDead (ws.length + f) (ws ++ b) = skipDead f b
  | [], b, f, _ => by simp
  | w :: ws, b, f, h => by
    simp only [List.all_cons, Bool.and_eq_true] at h
    have : (w :: ws).length + f = (ws.length + f) + 1 := by simp only [List.length_cons]; omega
    rw [this]
    simp only [List.cons_append, skipDead, h.1, if_true]
    exact skipDead_ws ws b f h.2

theorem parseOpsGo_skip_ws (ws b : List Nat) (f : Nat) (inB : Bool) (acc : List TOp) (h : ws.all isSpaceC = true) :
    parseOpsGo f inB (ws ++ b) acc = parseOpsGo f inB b acc := by
  cases f with
  | zero => simp [parseOpsGo]
  | succ f =>
    have hs : skipDead ((ws ++ b).length + 1) (ws ++ b) = skipDead (b.length + 1) b := by
      have := skipDead_ws ws b (b.length + 1) h
      rw [← this]
      congr 1
      simp only [List.length_append]; omega
    unfold parseOpsGo
    simp only [hs]

theorem replicate_space (n : Nat) : (List.replicate n 32).all isSpaceC = true := by
  simp only [List.all_replicate]
  split <;> first | rfl | decide

theorem lookup_repeat : lookupGate (bytesOf "REPEAT") = some Gen.g_REPEAT := by decide +kernel
theorem bytes_repeat : bytesOf "REPEAT" = [82, 69, 80, 69, 65, 84] := by decide

/-! ### the REPEAT header -/

theorem counts_header (n : Nat) (hn : n < 2 ^ 63) (X : List Nat) (f : Nat) :
    parseCountsGo (f + 2) (32 :: (natDigits n ++ 32 :: 123 :: X)) = some ([n], 123 :: X) := by
  obtain ⟨c, cs, hd, hstart⟩ := natDigits_head n
  have h1 : untilNextArg true (32 :: (natDigits n ++ 32 :: 123 :: X)) = some (true, natDigits n ++ 32 :: 123 :: X) := by
    rw [hd]; exact untilNextArg_space true c _ hstart
  have h2 : readUInt (2 ^ 63) (natDigits n ++ 32 :: 123 :: X) = some (n, 32 :: 123 :: X) :=
    uint_round_trip (2 ^ 63) n _ hn (by intro c hc; simp at hc; subst hc; decide)
  have h3 : untilNextArg true (32 :: 123 :: X) = some (false, 123 :: X) := by
    simp [untilNextArg, untilNextArg.skipWs]
  simp [parseCountsGo, h1, h2, h3]

theorem repeat_header (tag : List Nat) (n : Nat) (hn : n < 2 ^ 63) (X : List Nat) :
    parseInstrLine (bytesOf "REPEAT" ++ (printTag tag ++ 32 :: (natDigits n ++ 32 :: 123 :: X)))
      = .ok (Gen.g_REPEAT, tag, [], [n]) (123 :: X) := by
  have hstop : ∀ x, (printTag tag ++ 32 :: (natDigits n ++ 32 :: 123 :: X)).head? = some x → isNameC x = false := by
    intro x hx
    unfold printTag at hx
    split at hx
    · simp at hx; subst hx; decide
    · simp at hx; subst hx; decide
  have hall : (bytesOf "REPEAT").all isNameC = true := by rw [bytes_repeat]; decide
  have htw := takeWhile_name (bytesOf "REPEAT") _ hall hstop
  have htk : (bytesOf "REPEAT").take 32 = bytesOf "REPEAT" := by rw [bytes_repeat]; rfl
  have hdr : (bytesOf "REPEAT").drop 32 = [] := by rw [bytes_repeat]; rfl
  have hb : Gen.g_REPEAT.has 5 = true := by decide
  have hc := fun f => counts_header n hn X f
  unfold parseInstrLine
  simp only [htw, htk, hdr, List.nil_append, lookup_repeat]
  by_cases htag : tag = []
  · subst htag
    simp [printTag, hb, hc]
  · have hne : tag.isEmpty = false := by simpa using htag
    have htr := tag_round_trip tag (32 :: (natDigits n ++ 32 :: 123 :: X))
    simp [printTag, hne, htr, hb, hc]

/-! ### the parser loop -/

theorem parseOpsGo_close (f : Nat) (acc : List TOp) (rest : List Nat) :
    parseOpsGo (f + 1) true (125 :: rest) acc = .ok acc.reverse rest := by
  unfold parseOpsGo
  simp [skipDead, isSpaceC]

theorem parseOpsGo_step_instr (f : Nat) (inB : Bool) (c : Nat) (cs : List Nat) (acc : List TOp)
    (hsp : isSpaceC c = false) (hhash : (c == 35) = false) (hbrace : c ≠ 125)
    (row : GateRow) (tag : List Nat) (args : List Rat) (ts r : List Nat)
    (hp : parseInstrLine (c :: cs) = .ok (row, tag, args, ts) r) (hb : row.has 5 = false) :
    parseOpsGo (f + 1) inB (c :: cs) acc = parseOpsGo f inB (r.drop 1) (pushFused acc (.instr row.name tag args ts)) := by
  conv => lhs; unfold parseOpsGo
  simp only [List.length_cons, skipDead_id _ c cs hsp hhash]
  split
  · rename_i h; cases h
  · rename_i r' h
    simp only [List.cons.injEq] at h
    exact absurd h.1 hbrace
  · simp only [hp, hb, Bool.false_eq_true, if_false]

theorem parseOpsGo_step_rep (f : Nat) (inB : Bool) (c : Nat) (cs : List Nat) (acc : List TOp)
    (hsp : isSpaceC c = false) (hhash : (c == 35) = false) (hbrace : c ≠ 125)
    (row : GateRow) (tag : List Nat) (args : List Rat) (n : Nat) (r : List Nat)
    (hp : parseInstrLine (c :: cs) = .ok (row, tag, args, [n]) r) (hb : row.has 5 = true) (hn : (n == 0) = false)
    (body : List TOp) (r2 : List Nat) (hin : parseOpsGo f true (r.drop 1) [] = .ok body r2) :
    parseOpsGo (f + 1) inB (c :: cs) acc = parseOpsGo f inB r2 (pushFused acc (.rep n tag body)) := by
  conv => lhs; unfold parseOpsGo
  simp only [List.length_cons, skipDead_id _ c cs hsp hhash]
  split
  · rename_i h; cases h
  · rename_i r' h
    simp only [List.cons.injEq] at h
    exact absurd h.1 hbrace
  · simp only [hp, hb, if_true, hn, Bool.false_eq_true, if_false, hin]

mutual
theorem go_op : ∀ (o : TOp), WfOp o → ∀ (indent : Nat) (inB : Bool) (rest : List Nat) (acc : List TOp) (f : Nat), wOp o ≤ f →
    parseOpsGo (f + 1) inB (lineOp indent o ++ 10 :: rest) acc = parseOpsGo f inB rest (pushFused acc (fuseOp o))
  | .instr name tag args ts, hwf, indent, inB, rest, acc, f, _ => by
    obtain ⟨hargs, g, hg, hname, hblock, hwt, hval⟩ := hwf
    subst hname
    have hrt := instr_round_trip g hg hblock tag args hargs ts hwt hval rest
    have hh := name_heads_ok
    rw [List.all_eq_true] at hh
    have hhg := hh g hg
    have hline : ∃ c cs, printInstr g.name tag args ts ++ 10 :: rest = c :: cs ∧
        isSpaceC c = false ∧ (c == 35) = false ∧ c ≠ 125 := by
      unfold nameHeadOk at hhg
      split at hhg
      · rename_i c cs hb
        refine ⟨c, cs ++ (printTag tag ++ ((if args.isEmpty then [] else [40] ++ printArgs args ++ [41]) ++
          (printTargets false ts ++ 10 :: rest))), ?_, ?_⟩
        · simp [printInstr, hb]
        · simp only [Bool.and_eq_true, Bool.not_eq_true', bne_iff_ne, ne_eq] at hhg
          refine ⟨hhg.1.1, ?_, hhg.2⟩
          simpa using hhg.1.2
      · cases hhg
    obtain ⟨c, cs, hcs, hsp, hhash, hbrace⟩ := hline
    simp only [lineOp]
    rw [hcs]
    have hrt' : parseInstrLine (c :: cs) = .ok (g, tag, args, ts) (10 :: rest) := by rw [← hcs]; exact hrt
    rw [parseOpsGo_step_instr f inB c cs acc hsp hhash hbrace g tag args ts _ hrt' hblock]
    simp only [List.drop_succ_cons, List.drop_zero, fuseOp]
  | .rep n tag body, hwf, indent, inB, rest, acc, f, hf => by
    obtain ⟨hn0, hn, hbody⟩ := hwf
    simp only [wOp] at hf
    -- the text of the block
    let R : List Nat := List.replicate indent 32 ++ 125 :: 10 :: rest
    have htext : lineOp indent (.rep n tag body) ++ 10 :: rest
        = bytesOf "REPEAT" ++ (printTag tag ++ 32 :: (natDigits n ++ 32 :: 123 :: (10 :: (linesOps (indent + 4) body ++ R)))) := by
      simp [lineOp, R]
    have hhead := repeat_header tag n hn (10 :: (linesOps (indent + 4) body ++ R))
    -- inner parse
    obtain ⟨g', hg'⟩ : ∃ g', f = (g' + 1) + body.length := ⟨f - body.length - 1, by omega⟩
    have hwb : wOps body ≤ g' + 1 := by omega
    have hinner : parseOpsGo f true (10 :: (linesOps (indent + 4) body ++ R)) [] = .ok (accF body []).reverse (10 :: rest) := by
      have h1 : parseOpsGo f true (10 :: (linesOps (indent + 4) body ++ R)) []
          = parseOpsGo f true (linesOps (indent + 4) body ++ R) [] :=
        parseOpsGo_skip_ws [10] _ f true [] (by decide)
      rw [h1, hg', go_ops body hbody (indent + 4) true R [] (g' + 1) hwb]
      have h2 : parseOpsGo (g' + 1) true R (accF body []) = parseOpsGo (g' + 1) true (125 :: 10 :: rest) (accF body []) :=
        parseOpsGo_skip_ws (List.replicate indent 32) _ _ _ _ (replicate_space indent)
      rw [h2, parseOpsGo_close]
    rw [htext]
    have hfirst : bytesOf "REPEAT" ++ (printTag tag ++ 32 :: (natDigits n ++ 32 :: 123 :: (10 :: (linesOps (indent + 4) body ++ R))))
        = 82 :: ([69, 80, 69, 65, 84] ++ (printTag tag ++ 32 :: (natDigits n ++ 32 :: 123 :: (10 :: (linesOps (indent + 4) body ++ R))))) := by
      rw [bytes_repeat]; rfl
    rw [hfirst] at hhead ⊢
    have hb : Gen.g_REPEAT.has 5 = true := by decide
    have hnz : (n == 0) = false := by simpa using Nat.ne_of_gt hn0
    rw [parseOpsGo_step_rep f inB 82 _ acc (by decide) (by decide) (by decide) Gen.g_REPEAT tag [] n _ hhead hb hnz
      (accF body []).reverse (10 :: rest) (by simpa using hinner)]
    have h3 : parseOpsGo f inB (10 :: rest) (pushFused acc (.rep n tag (accF body []).reverse))
        = parseOpsGo f inB rest (pushFused acc (.rep n tag (accF body []).reverse)) :=
      parseOpsGo_skip_ws [10] _ f inB _ (by decide)
    rw [h3]
    simp only [fuseOp, fuseList_eq_accF]
theorem go_ops : ∀ (ops : List TOp), WfOps ops → ∀ (indent : Nat) (inB : Bool) (rest : List Nat) (acc : List TOp) (f : Nat), wOps ops ≤ f →
    parseOpsGo (f + ops.length) inB (linesOps indent ops ++ rest) acc = parseOpsGo f inB rest (accF ops acc)
  | [], _, indent, inB, rest, acc, f, _ => by simp [linesOps, accF]
  | o :: os, hwf, indent, inB, rest, acc, f, hf => by
    obtain ⟨ho, hos⟩ := hwf
    simp only [wOps] at hf
    have htext : linesOps indent (o :: os) ++ rest
        = List.replicate indent 32 ++ (lineOp indent o ++ 10 :: (linesOps indent os ++ rest)) := by
      simp [linesOps]
    rw [htext, parseOpsGo_skip_ws _ _ _ _ _ (replicate_space indent)]
    have hlen : f + (o :: os).length = (f + os.length) + 1 := by simp only [List.length_cons]; omega
    rw [hlen, go_op o ho indent inB _ acc (f + os.length) (by omega)]
    rw [go_ops os hos indent inB rest _ f (by omega)]
    simp only [accF]
end

/-! ### the fuel `parseText` starts with is enough -/

mutual
theorem wOp_le_length : ∀ (o : TOp) (indent : Nat), wOp o + 1 ≤ (lineOp indent o).length + 1
  | .instr _ _ _ _, _ => by simp [wOp]
  | .rep n tag body, indent => by
    have ih := wOps_le_length body (indent + 4)
    simp only [wOp, lineOp, List.length_append, List.length_cons, bytes_repeat, List.length_nil]
    omega
theorem wOps_le_length : ∀ (ops : List TOp) (indent : Nat), wOps ops + ops.length ≤ (linesOps indent ops).length
  | [], _ => by simp [wOps, linesOps]
  | o :: os, indent => by
    have h1 := wOp_le_length o indent
    have h2 := wOps_le_length os indent
    simp only [wOps, linesOps, List.length_append, List.length_cons]
    omega
end

/-- **A circuit file with nested REPEAT blocks reads back as its fused program**, whatever its size and depth. -/
theorem block_round_trip (ops : List TOp) (hwf : WfOps ops) :
    parseText (linesOps 0 ops) = .ok (fuseList ops []) [] := by
  unfold parseText
  have hw := wOps_le_length ops 0
  obtain ⟨f, hf⟩ : ∃ f, (linesOps 0 ops).length + 2 = (f + 1) + ops.length := ⟨(linesOps 0 ops).length + 1 - ops.length, by omega⟩
  have hwf' : wOps ops ≤ f + 1 := by omega
  have := go_ops ops hwf 0 false [] [] (f + 1) hwf'
  rw [List.append_nil] at this
  rw [hf, this, fuseList_eq_accF]
  unfold parseOpsGo
  simp [skipDead]

/-! ### relation to the model printer -/

mutual
def NoEmptyBlock : TOp → Prop
  | .instr _ _ _ _ => True
  | .rep _ _ body => body ≠ [] ∧ NoEmptyBlocks body
def NoEmptyBlocks : List TOp → Prop
  | [] => True
  | o :: os => NoEmptyBlock o ∧ NoEmptyBlocks os
end

mutual
theorem printOp_lineOp : ∀ (o : TOp) (indent : Nat), NoEmptyBlock o →
    printOp indent o = List.replicate indent 32 ++ lineOp indent o
  | .instr _ _ _ _, _, _ => by simp [printOp, lineOp]
  | .rep n tag body, indent, h => by
    obtain ⟨hne, hb⟩ := h
    have ih := printOps_linesOps body (indent + 4) hne hb
    simp only [printOp, lineOp]
    have : printOps (indent + 4) body ++ 10 :: (List.replicate indent 32 ++ [125])
        = linesOps (indent + 4) body ++ (List.replicate indent 32 ++ [125]) := by
      rw [← ih]; simp
    simp [this]
theorem printOps_linesOps : ∀ (ops : List TOp) (indent : Nat), ops ≠ [] → NoEmptyBlocks ops →
    printOps indent ops ++ [10] = linesOps indent ops
  | [], _, h, _ => absurd rfl h
  | [o], indent, _, h => by
    simp only [printOps, linesOps, printOp_lineOp o indent h.1]
    simp
  | o :: o2 :: os, indent, _, h => by
    have ih := printOps_linesOps (o2 :: os) indent (by simp) h.2
    simp only [printOps, printOp_lineOp o indent h.1]
    rw [linesOps, ← ih]
    simp
end

/-- non-vacuity: a block inside a block, with fusion inside the inner one and a noise channel with an argument -/
example :
    let q (k : Nat) : Nat := k + 0 * XB + 0 * ZB + 0 * INV
    parseText (linesOps 0 [.rep 3 [116] [.instr "H" [] [] [q 0], .instr "X_ERROR" [] [(1 : Rat) / 8] [q 3],
        .rep 2 [] [.instr "X" [] [] [q 1], .instr "X" [] [] [q 2]]]])
      = .ok [.rep 3 [116] [.instr "H" [] [] [q 0], .instr "X_ERROR" [] [(1 : Rat) / 8] [q 3],
        .rep 2 [] [.instr "X" [] [] [q 1, q 2]]]] [] := by
  intro q
  have hq : ∀ k, k < 2 ^ 24 → WfTarget (q k) := fun k hk => .qubit k 0 0 0 hk (by decide) (by decide) (by decide)
  have h := block_round_trip
    [.rep 3 [116] [.instr "H" [] [] [q 0], .instr "X_ERROR" [] [(1 : Rat) / 8] [q 3],
      .rep 2 [] [.instr "X" [] [] [q 1], .instr "X" [] [] [q 2]]]] (by
      simp only [WfOps, WfOp, and_true]
      refine ⟨by decide, by decide, ⟨.inl rfl, Gen.g_H, by decide, rfl, by decide, ?_, by decide +kernel⟩,
        ⟨args_eighth, Gen.g_X_ERROR, by decide, rfl, by decide, ?_, by decide +kernel⟩, by decide, by decide,
        ⟨.inl rfl, Gen.g_X, by decide, rfl, by decide, ?_, by decide +kernel⟩,
        ⟨.inl rfl, Gen.g_X, by decide, rfl, by decide, ?_, by decide +kernel⟩⟩
      all_goals
        intro t ht
        simp only [List.mem_cons, List.mem_nil_iff, or_false] at ht
        subst ht
        exact hq _ (by decide))
  rw [h]
  rfl

end Stim.C07
