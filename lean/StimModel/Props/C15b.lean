import StimModel.Model.Algebra
/-!
# C15 (continued): equal normal forms mean equal executed streams

The algebra checks (`+`, `*`, insert, slices, in-place self-addition, copies) compare the implementation's result with the list
operation through `sameProgram a b = (normalize a == normalize b)`.  What that comparison means is proved here, for every circuit:

* `atoms` : the executed stream at target granularity — the unrolled program, every fusable instruction split into one atom per
  target (so `H 0 1` and `H 0; H 1` are the same stream), non-fusable instructions kept whole;
* `atoms_fuseGo`, `atoms_fuseAdjacent` : fusing adjacent instructions never changes the atoms;
* `atoms_normalize` : **normalising never changes the atoms** (REPEAT 0 dropped, REPEAT 1 inlined, nested single blocks merged with
  multiplied counts, bodies normalised recursively);
* `same_normal_form_same_stream` : if two circuits have equal normal forms they execute the same atom stream.
-/
namespace Stim.C15
open Stim

inductive Atom where
  | one (g tag : String) (args : List Nat) (t : Target)
  | whole (g tag : String) (args : List Nat) (ts : List Target)

def atomsInstr (g tag : String) (args : List Nat) (ts : List Target) : List Atom :=
  if instrFusable g then ts.map (Atom.one g tag args) else [Atom.whole g tag args ts]

def atomsOp : Op → List Atom
  | .instr g tag args ts => atomsInstr g tag args ts
  | .rep _ _ _ => []      -- never present after unrolling

def atomsFlat (l : List Op) : List Atom := l.flatMap atomsOp

/-- the executed stream of a circuit -/
def atoms (c : List Op) : List Atom := atomsFlat (unrollList c)

def repA (n : Nat) (l : List Atom) : List Atom :=
  match n with
  | 0 => []
  | k+1 => l ++ repA k l

theorem atomsFlat_append (a b : List Op) : atomsFlat (a ++ b) = atomsFlat a ++ atomsFlat b := by
  simp [atomsFlat]

theorem atomsFlat_repeat (n : Nat) (l : List Op) : atomsFlat (repeatList n l) = repA n (atomsFlat l) := by
  induction n with
  | zero => simp [repeatList, repA, atomsFlat]
  | succ k ih => simp [repeatList, repA, atomsFlat_append, ih]

theorem unrollList_append (a b : List Op) : unrollList (a ++ b) = unrollList a ++ unrollList b := by
  induction a with
  | nil => simp [unrollList]
  | cons o os ih => simp [unrollList, ih]

theorem atoms_append (a b : List Op) : atoms (a ++ b) = atoms a ++ atoms b := by
  simp [atoms, unrollList_append, atomsFlat_append]

theorem atoms_nil : atoms [] = [] := by simp [atoms, unrollList, atomsFlat]

theorem atoms_cons (o : Op) (os : List Op) : atoms (o :: os) = atoms [o] ++ atoms os := by
  have := atoms_append [o] os
  simpa using this

theorem atoms_instr (g tag : String) (args : List Nat) (ts : List Target) :
    atoms [.instr g tag args ts] = atomsInstr g tag args ts := by
  simp [atoms, unrollList, unrollOp, atomsFlat, atomsOp]

theorem atoms_rep (n : Nat) (tag : String) (body : List Op) : atoms [.rep n tag body] = repA n (atoms body) := by
  simp [atoms, unrollList, unrollOp, atomsFlat_repeat]

theorem repA_nil (n : Nat) : repA n [] = [] := by
  induction n with
  | zero => rfl
  | succ k ih => simp [repA, ih]

theorem repA_one (l : List Atom) : repA 1 l = l := by simp [repA]

theorem repA_add (n m : Nat) (l : List Atom) : repA (n + m) l = repA n l ++ repA m l := by
  induction n with
  | zero => simp [repA]
  | succ k ih => rw [Nat.succ_add]; simp [repA, ih]

theorem repA_mul (n m : Nat) (l : List Atom) : repA n (repA m l) = repA (n * m) l := by
  induction n with
  | zero => simp [repA]
  | succ k ih =>
    show repA m l ++ repA k (repA m l) = repA (Nat.succ k * m) l
    rw [ih, Nat.succ_mul, Nat.add_comm (k * m) m, repA_add]

def atomsCur : Option (String × String × List Nat × List Target) → List Atom
  | none => []
  | some (g, t, a, ts) => atomsInstr g t a ts

theorem atomsInstr_append (g t : String) (a : List Nat) (ts ts' : List Target) (h : instrFusable g = true) :
    atomsInstr g t a (ts ++ ts') = atomsInstr g t a ts ++ atomsInstr g t a ts' := by
  simp [atomsInstr, h]

/-- **fusing adjacent instructions (with any pending instruction `cur`) never changes the atoms** -/
theorem atoms_fuseGo : ∀ (l : List Op) (cur : Option (String × String × List Nat × List Target)),
    atoms (fuseGo cur l) = atomsCur cur ++ atoms l
  | [], none => by simp [fuseGo, atomsCur, atoms_nil]
  | [], some (g, t, a, ts) => by simp [fuseGo, atomsCur, atoms_instr, atoms_nil]
  | .instr g' t' a' ts' :: rest, none => by
    rw [fuseGo, atoms_fuseGo rest, atoms_cons (.instr g' t' a' ts') rest, atoms_instr]
    simp [atomsCur]
  | .instr g' t' a' ts' :: rest, some (g, t, a, ts) => by
    rw [fuseGo]
    split
    · rename_i hc
      simp only [Bool.and_eq_true, beq_iff_eq] at hc
      obtain ⟨⟨⟨hg, ht⟩, ha⟩, hf⟩ := hc
      subst hg; subst ht; subst ha
      rw [atoms_fuseGo rest, atoms_cons (.instr g t a ts') rest, atoms_instr]
      simp only [atomsCur]
      rw [atomsInstr_append _ _ _ _ _ hf, List.append_assoc]
    · rw [atoms_cons, atoms_instr, atoms_fuseGo rest, atoms_cons (.instr g' t' a' ts') rest, atoms_instr]
      simp [atomsCur]
  | .rep n t b :: rest, none => by
    rw [fuseGo]
    simp only [List.nil_append]
    rw [atoms_cons, atoms_fuseGo rest none, atoms_cons (.rep n t b) rest]
    simp [atomsCur]
  | .rep n t b :: rest, some (g, tg, a, ts) => by
    rw [fuseGo]
    simp only [List.singleton_append]
    rw [atoms_cons, atoms_instr, atoms_cons (.rep n t b), atoms_fuseGo rest none, atoms_cons (.rep n t b) rest]
    simp [atomsCur]

theorem atoms_fuseAdjacent (l : List Op) : atoms (fuseAdjacent l) = atoms l := by
  simp [fuseAdjacent, atoms_fuseGo, atomsCur]

mutual
theorem atoms_normOp : ∀ (o : Op), atoms (normOp o) = atoms [o]
  | .instr g tag a ts => by simp [normOp]
  | .rep n tag body => by
    have ihb : atoms (fuseAdjacent (normList body)) = atoms body := by
      rw [atoms_fuseAdjacent, atoms_normList body]
    rw [atoms_rep]
    unfold normOp
    simp only
    split
    · rename_i h0
      have : n = 0 := by simpa using h0
      subst this; simp [repA, atoms_nil]
    · split
      · rename_i _ h1
        have : n = 1 := by simpa using h1
        subst this; rw [repA_one, ihb]
      · split
        · rename_i m tg inner hb
          rw [hb] at ihb
          rw [atoms_rep] at ihb
          rw [atoms_rep, ← ihb, repA_mul]
        · rename_i hb
          rw [hb, atoms_nil] at ihb
          rw [← ihb, repA_nil, atoms_nil]
        · rw [atoms_rep, ihb]
theorem atoms_normList : ∀ (l : List Op), atoms (normList l) = atoms l
  | [] => by simp [normList]
  | o :: os => by
    rw [normList, atoms_append, atoms_normOp o, atoms_normList os, ← atoms_cons]
end

/-- **Normalising a circuit never changes the stream it executes.** -/
theorem atoms_normalize (c : Circuit) : atoms (normalize c) = atoms c := by
  rw [normalize, atoms_fuseAdjacent, atoms_normList]

mutual
theorem opBeq_atoms : ∀ (o o' : Op), opBeq o o' = true → atoms [o] = atoms [o']
  | .instr g t a ts, .instr g' t' a' ts', h => by
    simp only [opBeq, Bool.and_eq_true, beq_iff_eq] at h
    obtain ⟨⟨⟨hg, ht⟩, ha⟩, hts⟩ := h
    subst hg; subst ht; subst ha; subst hts; rfl
  | .rep n _ b, .rep n' _ b', h => by
    simp only [opBeq, Bool.and_eq_true, beq_iff_eq] at h
    rw [atoms_rep, atoms_rep, h.1, opsBeq_atoms b b' h.2]
  | .instr _ _ _ _, .rep _ _ _, h => by simp [opBeq] at h
  | .rep _ _ _, .instr _ _ _ _, h => by simp [opBeq] at h
theorem opsBeq_atoms : ∀ (a b : List Op), opsBeq a b = true → atoms a = atoms b
  | [], [], _ => rfl
  | [], _ :: _, h => by simp [opsBeq] at h
  | _ :: _, [], h => by simp [opsBeq] at h
  | o :: os, o' :: os', h => by
    simp only [opsBeq, Bool.and_eq_true] at h
    rw [atoms_cons o os, atoms_cons o' os', opBeq_atoms o o' h.1, opsBeq_atoms os os' h.2]
end

/-- **If the checker says "same program", the two circuits execute the same stream** (at target granularity). -/
theorem same_normal_form_same_stream (a b : Circuit) (h : sameProgram a b = true) : atoms a = atoms b := by
  have := opsBeq_atoms _ _ h
  rwa [atoms_normalize, atoms_normalize] at this

/-- non-vacuity: `H 0; REPEAT 1 { H 1 }; REPEAT 2 { REPEAT 3 { X 0 } }` and `H 0 1; REPEAT 6 { X 0 }` are the same program -/
example : sameProgram
    [.instr "H" "" [] [⟨0⟩], .rep 1 "x" [.instr "H" "" [] [⟨1⟩]], .rep 2 "" [.rep 3 "y" [.instr "X" "" [] [⟨0⟩]]]]
    [.instr "H" "" [] [⟨0⟩, ⟨1⟩], .rep 6 "" [.instr "X" "" [] [⟨0⟩]]] = true := by decide

end Stim.C15
