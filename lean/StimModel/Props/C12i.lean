import StimModel.Props.C12h
/-!
# C12 (continued): `before` undoes `after`, gate by gate and on strings of any length

`propInstr .bwd` conjugates by `invTab k tab`, the model's computed inverse of the gate's own table.  Over the whole
regenerated table (`decide +kernel`):

* `table_before_after1/2` : the computed inverse table undoes the gate's table on every letter (pair), in both orders
  (`before ∘ after = id` and `after ∘ before = id`), total phase 0;
* `invTab_is_inverse_gate1/2` : the computed inverse table **is** the table of the gate Stim records as the inverse
  (`best_candidate_inverse_id`) — two independent sources for the same table.

Lifted to strings: `before_after_one`, `before_after_two` (any length, any in-range distinct positions, either target order).
-/
namespace Stim.C12
open Stim

def bwd1 (g : GateRow) : Act1 := Act1.ofTab (invTab 1 (fullTab 1 g.tab))
def bwd2 (g : GateRow) : Act2 := Act2.ofTab (invTab 2 (fullTab 2 g.tab))

theorem table_before_after1 :
    oneQubitUnitaries.all (fun g => undo1Check (act1 g) (bwd1 g) && undo1Check (bwd1 g) (act1 g)) = true := by
  decide +kernel

theorem table_before_after2 :
    twoQubitUnitaries.all (fun g => undo2Check (act2 g) (bwd2 g) && undo2Check (bwd2 g) (act2 g)) = true := by
  decide +kernel

theorem invTab_is_inverse_gate1 : oneQubitUnitaries.all (fun g =>
    match inverseRow g with
    | some h => decide (invTab 1 (fullTab 1 g.tab) = fullTab 1 h.tab)
    | none => false) = true := by
  decide +kernel

theorem invTab_is_inverse_gate2 : twoQubitUnitaries.all (fun g =>
    match inverseRow g with
    | some h => decide (invTab 2 (fullTab 2 g.tab) = fullTab 2 h.tab)
    | none => false) = true := by
  decide +kernel

/-- `before` after `after` (and `after` after `before`) is the identity for a single-qubit table gate, any position -/
theorem before_after_one (g : GateRow) (hg : g ∈ oneQubitUnitaries) (q : Nat) (s : PS) (hph : s.ph < 4) :
    conjTab (invTab 1 (fullTab 1 g.tab)) [q] (conjTab (fullTab 1 g.tab) [q] s) = s
    ∧ conjTab (fullTab 1 g.tab) [q] (conjTab (invTab 1 (fullTab 1 g.tab)) [q] s) = s := by
  have hall := table_before_after1
  rw [List.all_eq_true] at hall
  have := hall g hg
  simp only [Bool.and_eq_true] at this
  exact ⟨conj1_undo _ _ (undo1Check_sound _ _ this.1) q s hph, conj1_undo _ _ (undo1Check_sound _ _ this.2) q s hph⟩

/-- … and for a two-qubit table gate on any two distinct in-range positions, in either order -/
theorem before_after_two (g : GateRow) (hg : g ∈ twoQubitUnitaries) (a b : Nat) (s : PS) (hab : a ≠ b)
    (ha : a < s.ps.length) (hb : b < s.ps.length) (hph : s.ph < 4) :
    conjTab (invTab 2 (fullTab 2 g.tab)) [a, b] (conjTab (fullTab 2 g.tab) [a, b] s) = s
    ∧ conjTab (fullTab 2 g.tab) [a, b] (conjTab (invTab 2 (fullTab 2 g.tab)) [a, b] s) = s := by
  have hall := table_before_after2
  rw [List.all_eq_true] at hall
  have := hall g hg
  simp only [Bool.and_eq_true] at this
  exact ⟨conj2_undo _ _ (undo2Check_sound _ _ this.1) a b s hab ha hb hph,
         conj2_undo _ _ (undo2Check_sound _ _ this.2) a b s hab ha hb hph⟩

end Stim.C12
