import StimModel.Props.C12d
/-!
# C12 / C11 (continued): the table's inverse gates undo each other on signed Pauli strings

The regenerated gate table records, per gate, the id of its inverse (`GATE_DATA[...].best_candidate_inverse_id`, the gate
`Circuit::inverse` and `Tableau::inverse` substitute).  `table_inverse1` / `table_inverse2` (`decide` over the whole table):
for every one- and two-qubit unitary, applying the gate's letter table and then its recorded inverse's letter table returns
every letter (pair), with total phase 0.  `conj1_undo`: hence on strings of any length, at any position; `sequence1_undo`: a
sequence of single-qubit table gates followed by the reversed sequence of inverses is the identity on reduced strings.
-/
namespace Stim.C12
open Stim

def act1 (g : GateRow) : Act1 := Act1.ofTab (fullTab 1 g.tab)
def act2 (g : GateRow) : Act2 := Act2.ofTab (fullTab 2 g.tab)
def inverseRow (g : GateRow) : Option GateRow := Gen.gates.find? (·.id == g.inverse)

/-- `b` undoes `a` on letters, phases included -/
def Undo1 (a b : Act1) : Prop := ∀ p : P1, ((a.f p).1 + (b.f (a.f p).2).1) % 4 = 0 ∧ (b.f (a.f p).2).2 = p

def undo1Check (a b : Act1) : Bool :=
  P1.all.all fun p => ((a.f p).1 + (b.f (a.f p).2).1) % 4 == 0 && (b.f (a.f p).2).2 == p

theorem undo1Check_sound (a b : Act1) (h : undo1Check a b = true) : Undo1 a b := by
  intro p
  unfold undo1Check at h
  rw [List.all_eq_true] at h
  have := h p (P1.mem_all p)
  simpa using this

def undo2Check (a b : Act2) : Bool :=
  P1.all.all fun p => P1.all.all fun q =>
    let r := a.f p q
    let r' := b.f r.2.1 r.2.2
    (r.1 + r'.1) % 4 == 0 && r'.2.1 == p && r'.2.2 == q

def oneQubitUnitaries : List GateRow := Gen.gates.filter fun g => g.arity == 1 && g.isUnitary && !g.tab.isEmpty

/-- every single-qubit unitary's recorded inverse is in the table and undoes it on every letter -/
theorem table_inverse1 : oneQubitUnitaries.all (fun g =>
    match inverseRow g with
    | some h => h.arity == 1 && undo1Check (act1 g) (act1 h)
    | none => false) = true := by
  decide +kernel

/-- every two-qubit unitary's recorded inverse is in the table and undoes it on every letter pair -/
theorem table_inverse2 : twoQubitUnitaries.all (fun g =>
    match inverseRow g with
    | some h => h.arity == 2 && undo2Check (act2 g) (act2 h)
    | none => false) = true := by
  decide +kernel

theorem applyAt_undo (a b : Act1) (h : Undo1 a b) : ∀ (q : Nat) (xs : List P1),
    ((applyAt a q xs).1 + (applyAt b q (applyAt a q xs).2).1) % 4 = 0 ∧ (applyAt b q (applyAt a q xs).2).2 = xs
  | _, [] => by simp [applyAt]
  | 0, x :: xs => by
    have := h x
    simp only [applyAt]
    exact ⟨this.1, by rw [this.2]⟩
  | q+1, x :: xs => by
    have ih := applyAt_undo a b h q xs
    simp only [applyAt]
    exact ⟨ih.1, by rw [ih.2]⟩

/-- on a string of any length, at any position: the inverse table undoes the gate -/
theorem conj1_undo (a b : Act1) (h : Undo1 a b) (q : Nat) (s : PS) (hph : s.ph < 4) :
    (s.conj1 a q).conj1 b q = s := by
  have := applyAt_undo a b h q s.ps
  obtain ⟨h1, h2⟩ := this
  cases s with
  | mk ph ps =>
    simp only [PS.conj1] at *
    simp only [PS.mk.injEq]
    exact ⟨by omega, h2⟩

theorem conj1_ph_lt (a : Act1) (q : Nat) (s : PS) : (s.conj1 a q).ph < 4 := by
  simp only [PS.conj1]
  exact Nat.mod_lt _ (by decide)

/-- the inverse of a single-qubit table unitary, looked up by the recorded id, undoes it on strings -/
theorem gate_inverse_undoes (g h : GateRow) (hg : g ∈ oneQubitUnitaries) (hh : inverseRow g = some h) (q : Nat) (s : PS)
    (hph : s.ph < 4) : (s.conj1 (act1 g) q).conj1 (act1 h) q = s := by
  have hall := table_inverse1
  rw [List.all_eq_true] at hall
  have := hall g hg
  rw [hh] at this
  simp only [Bool.and_eq_true] at this
  exact conj1_undo _ _ (undo1Check_sound _ _ this.2) q s hph

/-- a sequence of (gate, inverse, position) triples, then the reversed sequence of inverses, is the identity -/
theorem sequence1_undo : ∀ (ops : List (GateRow × GateRow × Nat)),
    (∀ op ∈ ops, op.1 ∈ oneQubitUnitaries ∧ inverseRow op.1 = some op.2.1) → ∀ (s : PS), s.ph < 4 →
    (ops.reverse.foldl (fun s op => s.conj1 (act1 op.2.1) op.2.2)
      (ops.foldl (fun s op => s.conj1 (act1 op.1) op.2.2) s)) = s
  | [], _, _, _ => rfl
  | op :: ops, hok, s, hph => by
    simp only [List.foldl_cons, List.reverse_cons, List.foldl_append, List.foldl_nil]
    rw [sequence1_undo ops (fun o ho => hok o (by simp [ho])) _ (conj1_ph_lt _ _ _)]
    exact gate_inverse_undoes op.1 op.2.1 (hok op (by simp)).1 (hok op (by simp)).2 op.2.2 s hph

example : oneQubitUnitaries.length ≥ 20 ∧ (oneQubitUnitaries.map (·.name)).contains "S" = true := by decide
example : (inverseRow Gen.g_S).map (·.name) = some "S_DAG" := by decide

end Stim.C12
