import StimModel.Props.C20
/-!
# C20 (continued): laws of the bit-by-bit shifts

The definitions the `bits` area compares `simd_bits::operator<<=` / `>>=` with, for every length and every offset:

* `shr_get` / `shl_get` : entry `j` of the shifted vector is entry `j + k` (resp. `j − k`, or 0 below `k`);
* `shr_beyond` / `shl_beyond` : a shift by the length or more — however far beyond the storage — leaves no bit set
  (this is what the seeded change `C20-shift-right-skip-unclamped` broke for offsets more than a word past the padded size);
* `shr_shr` / `shl_shl` : shifting twice is shifting by the sum.
-/
namespace Stim.C20
open Stim.Bits

theorem get_of_le (a : BV) (i : Nat) (h : a.length ≤ i) : get a i = false := by
  unfold Bits.get
  simp [List.getD, List.getElem?_eq_none h]

theorem get_of_lt (a : BV) (i : Nat) (h : i < a.length) : get a i = a[i] := by
  unfold Bits.get
  simp [List.getD, h]

theorem shr_get (a : BV) (k j : Nat) (hj : j < a.length) : get (shr a k) j = get a (j + k) := by
  rw [get_of_lt _ j (by simpa [shr] using hj)]
  simp [shr]

theorem shl_get (a : BV) (k j : Nat) (hj : j < a.length) : get (shl a k) j = if j < k then false else get a (j - k) := by
  rw [get_of_lt _ j (by simpa [shl] using hj)]
  simp [shl]

/-- a right shift by the length or more clears the vector -/
theorem shr_beyond (a : BV) (k : Nat) (h : a.length ≤ k) : shr a k = List.replicate a.length false := by
  apply List.ext_getElem
  · simp [shr]
  · intro j h1 _
    have hj : j < a.length := by simpa [shr] using h1
    simp only [shr, List.getElem_map, List.getElem_range, List.getElem_replicate]
    exact get_of_le a (j + k) (by omega)

/-- a left shift by the length or more clears the vector -/
theorem shl_beyond (a : BV) (k : Nat) (h : a.length ≤ k) : shl a k = List.replicate a.length false := by
  apply List.ext_getElem
  · simp [shl]
  · intro j h1 _
    have hj : j < a.length := by simpa [shl] using h1
    simp only [shl, List.getElem_map, List.getElem_range, List.getElem_replicate]
    simp [show j < k by omega]

theorem shr_shr (a : BV) (k m : Nat) : shr (shr a k) m = shr a (k + m) := by
  apply List.ext_getElem
  · simp [shr]
  · intro j h1 _
    have hj : j < a.length := by simpa [shr] using h1
    simp only [shr, List.getElem_map, List.getElem_range, List.length_map, List.length_range]
    by_cases hjm : j + m < a.length
    · have := shr_get a k (j + m) hjm
      simp only [shr] at this
      rw [this]
      congr 1
      omega
    · rw [get_of_le _ (j + m) (by simp; omega), get_of_le a (j + (k + m)) (by omega)]

theorem shl_shl (a : BV) (k m : Nat) : shl (shl a k) m = shl a (k + m) := by
  apply List.ext_getElem
  · simp [shl]
  · intro j h1 _
    have hj : j < a.length := by simpa [shl] using h1
    simp only [shl, List.getElem_map, List.getElem_range, List.length_map, List.length_range]
    by_cases hm : j < m
    · simp [hm, show j < k + m by omega]
    · simp only [hm, if_false]
      have := shl_get a k (j - m) (by omega)
      simp only [shl] at this
      rw [this]
      by_cases hk : j - m < k
      · simp [hk, show j < k + m by omega]
      · simp only [hk, if_false, show ¬ j < k + m by omega]
        congr 1
        omega

example : shr [true, true, true] 200 = [false, false, false] := shr_beyond _ _ (by decide)

end Stim.C20
