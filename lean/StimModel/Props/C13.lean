import StimModel.Model.Rewrite
/-!
# C13 — circuit rewrites keep the documented relation to their input

`without_tags()` and `without_noise()` are compared (up to instruction fusion) with the reference rewrites `withoutTagsList` /
`withoutNoiseList`; proved here for every circuit (any nesting):

* `withoutTags_no_tag_survives`, `withoutTags_idempotent`, `withoutTags_unroll` (the executed stream is the input's stream with
  tags erased and nothing else changed);
* `withoutNoise_idempotent` (nothing noisy is left behind), `withoutNoise_repTags` (block structure and block tags are kept).

Decomposition, flattening, inversion, inlined feedback and time reversal are judged through the flow model of C14
(`flowEquivalent`, identity flows of `c ; c⁻¹`, `holdsUnsigned` of the returned flows) and the distribution oracle of C03.
-/
namespace Stim.C13
open Stim

mutual
theorem noTag_op : ∀ (o : Op), (tagsOfOp (withoutTagsOp o)).all (· == "") = true
  | .instr _ _ _ _ => by simp [withoutTagsOp, tagsOfOp]
  | .rep _ _ body => by
    simp only [withoutTagsOp, tagsOfOp, List.all_cons, beq_self_eq_true, Bool.true_and]
    exact noTag_list body
theorem noTag_list : ∀ (l : List Op), (tagsOfList (withoutTagsList l)).all (· == "") = true
  | [] => by simp [withoutTagsList, tagsOfList]
  | o :: os => by
    simp only [withoutTagsList, tagsOfList, List.all_append, Bool.and_eq_true]
    exact ⟨noTag_op o, noTag_list os⟩
end

/-- no tag survives `withoutTags`, at any nesting depth -/
theorem withoutTags_no_tag_survives (c : Circuit) : (tagsOfList (withoutTagsList c)).all (· == "") = true := noTag_list c

mutual
theorem idemTag_op : ∀ (o : Op), withoutTagsOp (withoutTagsOp o) = withoutTagsOp o
  | .instr _ _ _ _ => by simp [withoutTagsOp]
  | .rep _ _ body => by simp [withoutTagsOp, idemTag_list body]
theorem idemTag_list : ∀ (l : List Op), withoutTagsList (withoutTagsList l) = withoutTagsList l
  | [] => by simp [withoutTagsList]
  | o :: os => by simp [withoutTagsList, idemTag_op o, idemTag_list os]
end

theorem withoutTags_idempotent (c : Circuit) : withoutTagsList (withoutTagsList c) = withoutTagsList c := idemTag_list c

theorem repeatList_map (f : Op → Op) (n : Nat) (l : List Op) : (repeatList n l).map f = repeatList n (l.map f) := by
  induction n with
  | zero => simp [repeatList]
  | succ k ih => simp [repeatList, ih]

mutual
theorem unrollTag_op : ∀ (o : Op), unrollOp (withoutTagsOp o) = (unrollOp o).map withoutTagsOp
  | .instr _ _ _ _ => by simp [withoutTagsOp, unrollOp]
  | .rep n _ body => by
    simp only [withoutTagsOp, unrollOp]
    rw [unrollTag_list body, repeatList_map]
theorem unrollTag_list : ∀ (l : List Op), unrollList (withoutTagsList l) = (unrollList l).map withoutTagsOp
  | [] => by simp [withoutTagsList, unrollList]
  | o :: os => by
    simp only [withoutTagsList, unrollList, List.map_append]
    rw [unrollTag_op o, unrollTag_list os]
end

/-- the executed stream of the tag-free circuit is the executed stream of the input with the tags erased: nothing else changes -/
theorem withoutTags_unroll (c : Circuit) : unrollList (withoutTagsList c) = (unrollList c).map withoutTagsOp := unrollTag_list c

/-! ### without_noise -/

theorem mpad_row : (findGate "MPAD").map (fun r => (r.producesResults, r.isNoisy)) = some (true, false) := by decide

/-- applying the reference rewrite to one of its own output instructions changes nothing -/
theorem withoutNoiseOp_instr_fix (g tag : String) (args : List Nat) (ts : List Target) :
    ∀ o ∈ withoutNoiseOp (.instr g tag args ts), withoutNoiseOp o = [o] := by
  intro o ho
  simp only [withoutNoiseOp] at ho
  split at ho
  · -- unknown gate: kept as is, and stays unknown
    rename_i hnone
    simp only [List.mem_singleton] at ho
    subst ho
    simp [withoutNoiseOp, hnone]
  · rename_i row hrow
    split at ho
    · rename_i hres
      split at ho
      · -- heralded channel → MPAD
        simp only [List.mem_singleton] at ho
        subst ho
        have h := mpad_row
        cases hm : findGate "MPAD" with
        | none => simp [hm] at h
        | some r =>
          simp only [hm, Option.map_some, Option.some.injEq, Prod.mk.injEq] at h
          simp [withoutNoiseOp, hm, h.1]
      · rename_i hnotHer
        simp only [List.mem_singleton] at ho
        subst ho
        simp only [withoutNoiseOp, hrow, hres, if_true]
        simp only [Bool.or_eq_true, not_or] at hnotHer
        simp [hnotHer]
    · rename_i hres
      split at ho
      · simp at ho
      · rename_i hnoisy
        simp only [List.mem_singleton] at ho
        subst ho
        simp [withoutNoiseOp, hrow, hres, hnoisy]

mutual
theorem idemNoise_op : ∀ (o : Op), withoutNoiseList (withoutNoiseOp o) = withoutNoiseOp o
  | .instr g tag args ts => by
    have h := withoutNoiseOp_instr_fix g tag args ts
    generalize withoutNoiseOp (.instr g tag args ts) = l at h
    induction l with
    | nil => simp [withoutNoiseList]
    | cons x xs ih =>
      simp only [withoutNoiseList]
      rw [h x (List.mem_cons_self ..), ih (fun o ho => h o (List.mem_cons_of_mem _ ho))]
      simp
  | .rep n tag body => by
    simp only [withoutNoiseOp, withoutNoiseList, List.append_nil]
    rw [idemNoise_list body]
theorem idemNoise_list : ∀ (l : List Op), withoutNoiseList (withoutNoiseList l) = withoutNoiseList l
  | [] => by simp [withoutNoiseList]
  | o :: os => by
    have happ : ∀ (a b : List Op), withoutNoiseList (a ++ b) = withoutNoiseList a ++ withoutNoiseList b := by
      intro a b
      induction a with
      | nil => simp [withoutNoiseList]
      | cons x xs ih => simp [withoutNoiseList, ih, List.append_assoc]
    simp only [withoutNoiseList]
    rw [happ, idemNoise_op o, idemNoise_list os]
end

/-- removing noise twice is the same as removing it once (nothing noisy is left behind) -/
theorem withoutNoise_idempotent (c : Circuit) : withoutNoiseList (withoutNoiseList c) = withoutNoiseList c := idemNoise_list c

mutual
theorem repTagsNoise_op : ∀ (o : Op), repTagsList (withoutNoiseOp o) = repTagsOp o
  | .instr g tag args ts => by
    simp only [withoutNoiseOp, repTagsOp]
    split
    · simp [repTagsList, repTagsOp]
    · split
      · split <;> simp [repTagsList, repTagsOp]
      · split <;> simp [repTagsList, repTagsOp]
  | .rep n tag body => by
    simp only [withoutNoiseOp, repTagsList, repTagsOp, List.append_nil]
    rw [repTagsNoise_list body]
theorem repTagsNoise_list : ∀ (l : List Op), repTagsList (withoutNoiseList l) = repTagsList l
  | [] => by simp [withoutNoiseList]
  | o :: os => by
    have happ : ∀ (a b : List Op), repTagsList (a ++ b) = repTagsList a ++ repTagsList b := by
      intro a b
      induction a with
      | nil => simp [repTagsList]
      | cons x xs ih => simp [repTagsList, ih, List.append_assoc]
    simp only [withoutNoiseList, repTagsList]
    rw [happ, repTagsNoise_op o, repTagsNoise_list os]
end

/-- the block structure and the block tags survive `withoutNoise` -/
theorem withoutNoise_repTags (c : Circuit) : repTagsList (withoutNoiseList c) = repTagsList c := repTagsNoise_list c

/-- non-vacuity / sanity on a concrete nested circuit -/
example :
    let c : Circuit := [.instr "X_ERROR" "t" [1] [⟨0⟩], .rep 2 "blk" [.instr "M" "m" [1] [⟨0⟩], .instr "HERALDED_ERASE" "h" [1] [⟨0⟩, ⟨1⟩], .instr "DEPOLARIZE1" "" [1] [⟨0⟩]]]
    opsBeq (withoutNoiseList c) [.rep 2 "blk" [.instr "M" "m" [] [⟨0⟩], .instr "MPAD" "h" [] [⟨0⟩, ⟨0⟩]]] = true := by
  decide

end Stim.C13
