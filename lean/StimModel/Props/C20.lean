import StimModel.Core.Bits
import StimModel.Core.Transpose
/-!
# C20 — bit-matrix kernels match their bit-by-bit definitions

`Core/Transpose.lean`: the six mask-and-shift passes of `inplace_transpose_64x64` — per-pass word-level meaning for
symbolic 64-bit words (`passX_bit`, `passY_bit`) and composition of the six index exchanges into `(r,c) ↦ (c,r)` over
all 64×64 positions (`allPasses_is_transpose`).  Below: laws of the bit-by-bit definitions that the correspondence
compares the implementation with, for all sizes.
-/
namespace Stim.C20
open Stim.Bits

theorem transpose64_network : ∀ r c : Fin 64, Transpose.allPasses (r.val, c.val) = (c.val, r.val) :=
  Transpose.allPasses_is_transpose

/-- entry `(j, i)` of the transpose is entry `(i, j)` of the matrix, for every shape -/
theorem transpose_entry (m : BM) (cols i j : Nat) (hj : j < cols) (hi : i < m.length) :
    get ((transpose m cols).getD j []) i = get (m.getD i []) j := by
  simp [transpose, col, Bits.get, List.getD, hj, hi]

theorem xor_comm (a b : BV) : bxor a b = bxor b a := by
  induction a generalizing b with
  | nil => cases b <;> simp [bxor]
  | cons x xs ih =>
    cases b with
    | nil => simp [bxor]
    | cons y ys =>
      have := ih ys
      simp only [bxor, List.zipWith_cons_cons] at *
      rw [this]
      cases x <;> cases y <;> rfl

theorem xor_self_zero (a : BV) : popcnt (bxor a a) = 0 := by
  induction a with
  | nil => rfl
  | cons x xs ih => cases x <;> simp_all [bxor, popcnt]

theorem popcnt_le (a : BV) : popcnt a ≤ a.length := by
  simp [popcnt]; exact List.length_filter_le _ _

/-- shifting never changes the logical length (no dependence on word width or padding) -/
theorem shifts_keep_length (a : BV) (k : Nat) : (shl a k).length = a.length ∧ (shr a k).length = a.length :=
  ⟨shl_length a k, shr_length a k⟩

theorem truncOverwrite_prefix (dst src : BV) (k : Nat) (h : k ≤ src.length) :
    (truncOverwrite dst src k).take k = src.take k := by
  simp [truncOverwrite, List.take_append, List.take_take, Nat.min_eq_left h]

theorem identity_matmul_small : matMul (identity 3) [[true, false, true], [false, true, true], [true, true, false]] 3
    = [[true, false, true], [false, true, true], [true, true, false]] := by decide

end Stim.C20
