import StimModel.Model.Noise
import StimModel.Core.Coin
namespace Stim
end Stim
