import StimModel.Model.Noise
import StimModel.Core.Coin
/-!
# C05 — noise channels fire with their documented probabilities

Sampling itself can only be compared statistically (area `noise`: exact expected probabilities from the channel semantics,
Bernstein acceptance bound).  Proved here is the arithmetic that turns documented probabilities into the coin flips the
simulators perform:

* `chain_fires_with_documented_probability`: `perform_pauli_errors_via_correlated_errors` walks the outcomes of a disjoint
  channel as an `E / ELSE_CORRELATED_ERROR` chain with conditional probabilities `p_k / (1 - p_1 - … - p_{k-1})`
  (`0` when nothing remains, `1` when `p_k` is all that remains).  For every probability vector with non-negative entries and
  sum at most one, outcome `k` then fires with probability exactly `p_k`, and the outcomes are mutually exclusive by
  construction of the chain (`chainStep` consumes "nothing fired so far" mass only).
* `Stim.ladder_exact` (Core/Coin.lean): the bit ladder of `biased_randomize_bits` sets a bit with probability exactly `top/128`
  for every 7-bit `top`.
* `countPlausible_exact`: the acceptance test always accepts the exact expectation.
-/
namespace Stim.C05
open Stim

/-- the conditional probability used for an outcome of probability `p` when `used` has been consumed by earlier outcomes -/
def condProb (used p : Rat) : Rat :=
  let remaining := 1 - used
  if remaining ≤ 0 then 0 else if remaining ≤ p then 1 else p / remaining

/-- probabilities with which the elements of the chain fire: `alive` is the probability that nothing fired so far -/
def chainFire : Rat → Rat → List Rat → List Rat
  | _, _, [] => []
  | alive, used, p :: ps =>
    if p == 0 then 0 :: chainFire alive used ps     -- `continue`: no coin is flipped
    else
      let c := condProb used p
      (alive * c) :: chainFire (alive * (1 - c)) (used + p) ps

theorem chainFire_invariant : ∀ (ps : List Rat) (used : Rat),
    0 ≤ used → (∀ p ∈ ps, 0 ≤ p) → used + ps.foldl (· + ·) 0 ≤ 1 →
    chainFire (1 - used) used ps = ps
  | [], _, _, _, _ => rfl
  | p :: ps, used, hu, hp, hs => by
    have hp0 : 0 ≤ p := hp p (List.mem_cons_self ..)
    have hrest : ∀ q ∈ ps, 0 ≤ q := fun q hq => hp q (List.mem_cons_of_mem _ hq)
    -- the tail sum is non-negative, so `used + p ≤ 1`
    have hfold : ∀ (l : List Rat) (a : Rat), l.foldl (· + ·) a = a + l.foldl (· + ·) 0 := by
      intro l
      induction l with
      | nil => intro a; simp only [List.foldl_nil]; grind
      | cons x xs ih => intro a; simp only [List.foldl_cons]; rw [ih (a + x), ih (0 + x)]; grind
    have hnonneg : ∀ (l : List Rat), (∀ q ∈ l, 0 ≤ q) → 0 ≤ l.foldl (· + ·) 0 := by
      intro l
      induction l with
      | nil => intro _; simp
      | cons x xs ih =>
        intro h
        simp only [List.foldl_cons]
        rw [hfold xs (0 + x)]
        have h1 := h x (List.mem_cons_self ..)
        have h2 := ih (fun q hq => h q (List.mem_cons_of_mem _ hq))
        grind
    have htail := hnonneg ps hrest
    simp only [List.foldl_cons] at hs
    rw [hfold ps (0 + p)] at hs
    have hup : used + p ≤ 1 := by grind
    unfold chainFire
    by_cases hz : p = 0
    · subst hz
      simp only [BEq.rfl, if_true]
      rw [chainFire_invariant ps used hu hrest (by grind)]
    · have hbeq : (p == 0) = false := by simpa using hz
      simp only [hbeq, Bool.false_eq_true, if_false]
      have hpos : 0 < p := by grind
      have hrem : 0 < 1 - used := by grind
      unfold condProb
      simp only
      have hnle : ¬ (1 - used ≤ 0) := by grind
      simp only [hnle, if_false]
      by_cases hall : 1 - used ≤ p
      · -- this outcome takes all that remains
        simp only [hall, if_true]
        have heq : p = 1 - used := by grind
        have : (1 - used) * (1 - 1) = 1 - (used + p) := by grind
        rw [Rat.mul_one, this, chainFire_invariant ps (used + p) (by grind) hrest (by grind)]
        rw [← heq]
      · simp only [hall, if_false]
        have hne : (1 - used) ≠ 0 := by grind
        have h1 : (1 - used) * (p / (1 - used)) = p := by
          rw [Rat.div_def, Rat.mul_comm p, ← Rat.mul_assoc, Rat.mul_inv_cancel _ hne, Rat.one_mul]
        have h2 : (1 - used) * (1 - p / (1 - used)) = 1 - (used + p) := by
          have h3 : (1 - used) * (1 - p / (1 - used)) = (1 - used) - (1 - used) * (p / (1 - used)) := by grind
          rw [h3, h1]; grind
        rw [h1, h2, chainFire_invariant ps (used + p) (by grind) hrest (by grind)]

/-- **Every outcome of a disjoint channel fires with exactly its documented probability.** -/
theorem chain_fires_with_documented_probability (ps : List Rat) (hp : ∀ p ∈ ps, 0 ≤ p) (hs : ps.foldl (· + ·) 0 ≤ 1) :
    chainFire 1 0 ps = ps := by
  have := chainFire_invariant ps 0 (by decide) hp (by rw [Rat.zero_add]; exact hs)
  have h10 : (1 : Rat) - 0 = 1 := by grind
  rw [h10] at this
  exact this

/-- non-vacuity: DEPOLARIZE1(3/4) as the chain X, Y, Z with 1/4 each -/
example : chainFire 1 0 [1/4, 1/4, 1/4] = [1/4, 1/4, 1/4] :=
  chain_fires_with_documented_probability _
    (by intro p hp; simp only [List.mem_cons, List.not_mem_nil, or_false, or_self] at hp; subst hp; grind)
    (by simp only [List.foldl_cons, List.foldl_nil]; grind)

/-- the acceptance test accepts the exact expectation (no built-in false alarm) -/
theorem countPlausible_exact (N c : Nat) (p : Rat) (h0 : 0 < p) (h1 : p < 1) (hc : (c : Rat) = N * p) :
    countPlausible N c p = true := by
  unfold countPlausible
  have hn0 : ¬ (p ≤ 0) := by grind
  have hn1 : ¬ (p ≥ 1) := by grind
  simp only [hn0, hn1, if_false, hc]
  have : ratAbs ((N : Rat) * p - N * p) = 0 := by simp [ratAbs, Rat.sub_self]
  rw [this]
  have hvar : 0 ≤ (N : Rat) * p * (1 - p) := by
    have hN : (0 : Rat) ≤ N := by exact_mod_cast Nat.zero_le N
    have : 0 ≤ (N : Rat) * p := Rat.mul_nonneg hN (by grind)
    exact Rat.mul_nonneg this (by grind)
  simp only [decide_eq_true_eq]
  grind

end Stim.C05
