import StimModel.Props.C10
import StimModel.Driver.Dispatch
/-!
# C10 (continued): the components of a decomposition XOR to the symptoms of the whole error

`Driver.componentsOf` is the splitter the structural checker `demsem decomp` applies to a suggested decomposition
(`error(p) D0 D1 ^ D2 L0` → `[[D0, D1], [D2, L0]]`).  For every target list, of any length and with separators anywhere:

* `components_flatten` : the components, concatenated, are the targets without the separators — the splitter neither drops,
  duplicates nor reorders a target;
* `errorVec_append` : symptoms of a concatenation are the XOR of the symptoms (duplicates across the two parts cancel);
* `components_xor_to_whole` : **the XOR of the symptom vectors of the components is the symptom vector of the error read
  without separators**, i.e. of the undecomposed error (`C10.separators_ignored`).
-/
namespace Stim.C10
open Stim Stim.Driver

def xorB (a b : List Bool) : List Bool := List.zipWith (· != ·) a b

theorem parity_add (x y : Nat) : ((x + y) % 2 == 1) = ((x % 2 == 1) != (y % 2 == 1)) := by
  rcases Nat.mod_two_eq_zero_or_one x with h1 | h1 <;>
  rcases Nat.mod_two_eq_zero_or_one y with h2 | h2 <;> simp [Nat.add_mod, h1, h2]

theorem zipWith_map_same {α : Type} (f g : α → Bool) (l : List α) :
    List.zipWith (· != ·) (l.map f) (l.map g) = l.map (fun x => f x != g x) := by
  induction l with
  | nil => rfl
  | cons x xs ih => simp [ih]

theorem errorVec_append (shape : Nat × Nat) (a b : List DTarget) :
    errorVec shape (a ++ b) = xorB (errorVec shape a) (errorVec shape b) := by
  unfold errorVec xorB
  rw [List.zipWith_append (by simp), zipWith_map_same, zipWith_map_same]
  congr 1
  · apply List.map_congr_left; intro k _
    rw [List.filter_append, List.length_append, parity_add]
  · apply List.map_congr_left; intro k _
    rw [List.filter_append, List.length_append, parity_add]

theorem errorVec_nil (shape : Nat × Nat) : errorVec shape [] = List.replicate (shape.1 + shape.2) false := by
  unfold errorVec
  simp only [List.filter_nil, List.length_nil]
  apply List.ext_getElem
  · simp
  · intro i h1 h2
    simp [List.getElem_append]

theorem errorVec_length (shape : Nat × Nat) (ts : List DTarget) : (errorVec shape ts).length = shape.1 + shape.2 := by
  simp [errorVec]

theorem xorB_zero_left (n : Nat) (v : List Bool) (h : v.length = n) : xorB (List.replicate n false) v = v := by
  subst h
  unfold xorB
  induction v with
  | nil => rfl
  | cons x xs ih => simp [List.replicate_succ, ih]

/-- symptoms of a concatenation of components = XOR of the components' symptoms -/
theorem errorVec_flatten (shape : Nat × Nat) : ∀ (cs : List (List DTarget)) (acc : List DTarget),
    cs.foldl (fun v c => xorB v (errorVec shape c)) (errorVec shape acc) = errorVec shape (acc ++ cs.flatten)
  | [], acc => by simp
  | c :: cs, acc => by
    simp only [List.foldl_cons, List.flatten_cons]
    rw [← errorVec_append, errorVec_flatten shape cs (acc ++ c), List.append_assoc]

def splitStep (acc : List (List DTarget) × List DTarget) (t : DTarget) : List (List DTarget) × List DTarget :=
  if t == .sep then (acc.1 ++ [acc.2], []) else (acc.1, acc.2 ++ [t])

theorem split_inv : ∀ (ts : List DTarget) (acc : List (List DTarget) × List DTarget),
    ((ts.foldl splitStep acc).1 ++ [(ts.foldl splitStep acc).2]).flatten
      = (acc.1 ++ [acc.2]).flatten ++ ts.filter (· != .sep)
  | [], acc => by simp
  | t :: ts, acc => by
    rw [List.foldl_cons, split_inv ts (splitStep acc t)]
    unfold splitStep
    by_cases h : t = .sep
    · subst h; simp
    · have h1 : (t == DTarget.sep) = false := by simpa using h
      have h2 : (t != DTarget.sep) = true := by simpa using h
      simp [h1, h2]

theorem componentsOf_eq (ts : List DTarget) :
    componentsOf ts = (ts.foldl splitStep ([], [])).1 ++ [(ts.foldl splitStep ([], [])).2] := by
  unfold componentsOf splitStep
  rfl

/-- the splitter keeps every target, once, in order -/
theorem components_flatten (ts : List DTarget) : (componentsOf ts).flatten = ts.filter (· != .sep) := by
  rw [componentsOf_eq, split_inv]
  simp

/-- the XOR of the components' symptom vectors is the symptom vector of the undecomposed error -/
theorem components_xor_to_whole (shape : Nat × Nat) (ts : List DTarget) :
    (componentsOf ts).foldl (fun v c => xorB v (errorVec shape c)) (List.replicate (shape.1 + shape.2) false)
      = errorVec shape ts := by
  rw [← errorVec_nil, errorVec_flatten, List.nil_append, components_flatten, separators_ignored]

example : componentsOf [.det 0, .det 1, .sep, .det 1, .obs 0] = [[.det 0, .det 1], [.det 1, .obs 0]] := by decide
example : (componentsOf [.det 0, .det 1, .sep, .det 1, .obs 0]).foldl (fun v c => xorB v (errorVec (2, 1) c)) [false, false, false]
    = [true, false, true] := by decide

end Stim.C10
