import StimModel.Props.C07g
/-!
# C07 (continued): blank lines, indentation and comment lines between instructions are ignored

The documented liberties of the circuit file format include arbitrary white space and `# …` comment lines between
instructions.  `Dead` describes such text: any mixture of white-space bytes (space, tab, line feed, carriage return, …) and
comments (`#`, any bytes but a line feed, a line feed).  Proved:

* `skipDead_fuel` : the scanner's fuel never matters once it exceeds the length of the text;
* `parseOpsGo_skip_dead` : the parser loop does not see dead text in front of what it reads next;
* `dead_text_ignored` : a file in which every top-level operation (instruction or whole `REPEAT` block, printed canonically) is
  preceded by arbitrary dead text, with more dead text at the end, is read back as exactly the same fused program as the plain
  file — so comments and blank lines never change the meaning of a file.
-/
namespace Stim.C07
open Stim Stim.Text

inductive Dead : List Nat → Prop
  | nil : Dead []
  | ws (c : Nat) (d : List Nat) : isSpaceC c = true → Dead d → Dead (c :: d)
  | comment (body d : List Nat) : (∀ x ∈ body, x ≠ 10) → Dead d → Dead (35 :: (body ++ 10 :: d))

theorem takeWhileC_snd_length (p : Nat → Bool) : ∀ (l : List Nat), ((takeWhileC p l).2).length ≤ l.length
  | [] => by simp [takeWhileC]
  | c :: cs => by
    have ih := takeWhileC_snd_length p cs
    unfold takeWhileC
    split
    · simp only [List.length_cons]; omega
    · simp

/-- with more fuel than bytes the scanner's result does not depend on the fuel -/
theorem skipDead_fuel : ∀ (n : Nat) (l : List Nat) (f : Nat), l.length ≤ n → l.length < f → skipDead f l = skipDead (l.length + 1) l
  | _, [], f, _, hf => by
    cases f with
    | zero => omega
    | succ f => simp [skipDead]
  | 0, c :: cs, _, hn, _ => by simp at hn
  | n+1, c :: cs, f, hn, hf => by
    cases f with
    | zero => omega
    | succ f =>
      have hlen : cs.length ≤ n := by simpa using hn
      have hf' : cs.length < f := by simpa using hf
      simp only [List.length_cons, skipDead]
      by_cases hs : isSpaceC c = true
      · simp only [hs, if_true]
        exact skipDead_fuel n cs f hlen hf'
      · simp only [hs, Bool.false_eq_true, if_false]
        by_cases hh : (c == 35) = true
        · simp only [hh, if_true]
          have ht := takeWhileC_snd_length (· != 10) cs
          have h1 := skipDead_fuel n _ f (by omega) (by omega : ((takeWhileC (· != 10) cs).2).length < f)
          have h2 := skipDead_fuel n _ (cs.length + 1) (by omega) (by omega : ((takeWhileC (· != 10) cs).2).length < cs.length + 1)
          rw [h1, h2]
        · simp only [hh, Bool.false_eq_true, if_false]

theorem skipDead_dead : ∀ (d : List Nat), Dead d → ∀ (b : List Nat),
    skipDead ((d ++ b).length + 1) (d ++ b) = skipDead (b.length + 1) b := by
  intro d hd
  induction hd with
  | nil => intro b; simp
  | ws c d hc _ ih =>
    intro b
    have : (c :: d ++ b).length + 1 = ((d ++ b).length + 1) + 1 := by simp
    rw [this]
    simp only [List.cons_append, skipDead, hc, if_true]
    exact ih b
  | comment body d hb _ ih =>
    intro b
    have hall : body.all (· != 10) = true := by
      rw [List.all_eq_true]; intro x hx; simpa using hb x hx
    have htw : takeWhileC (· != 10) (body ++ 10 :: (d ++ b)) = (body, 10 :: (d ++ b)) :=
      takeWhileC_append (· != 10) body (10 :: (d ++ b)) hall (by intro c hc; simp at hc; subst hc; decide)
    have hform : 35 :: (body ++ 10 :: d) ++ b = 35 :: (body ++ 10 :: (d ++ b)) := by simp
    rw [hform]
    have hlen : (35 :: (body ++ 10 :: (d ++ b))).length + 1 = ((body ++ 10 :: (d ++ b)).length + 1) + 1 := by simp
    rw [hlen]
    simp only [skipDead, show isSpaceC 35 = false by decide, Bool.false_eq_true, if_false, beq_self_eq_true, if_true, htw]
    -- the line feed is white space; the fuel left exceeds what remains
    simp only [show isSpaceC 10 = true by decide, if_true]
    have h1 := skipDead_fuel (d ++ b).length (d ++ b) (body ++ 10 :: (d ++ b)).length (Nat.le_refl _)
      (by simp only [List.length_append, List.length_cons]; omega)
    rw [h1]
    exact ih b

theorem parseOpsGo_skip_dead (d b : List Nat) (f : Nat) (inB : Bool) (acc : List TOp) (h : Dead d) :
    parseOpsGo f inB (d ++ b) acc = parseOpsGo f inB b acc := by
  cases f with
  | zero => simp [parseOpsGo]
  | succ f =>
    have hs := skipDead_dead d h b
    unfold parseOpsGo
    simp only [hs]

/-- the text of a top-level program with dead text in front of every operation -/
def textD : List (List Nat × TOp) → List Nat
  | [] => []
  | (d, o) :: rest => d ++ (lineOp 0 o ++ 10 :: textD rest)

theorem go_textD : ∀ (l : List (List Nat × TOp)), (∀ p ∈ l, Dead p.1 ∧ WfOp p.2) →
    ∀ (rest : List Nat) (acc : List TOp) (f : Nat), wOps (l.map (·.2)) ≤ f →
    parseOpsGo (f + l.length) false (textD l ++ rest) acc = parseOpsGo f false rest (accF (l.map (·.2)) acc)
  | [], _, rest, acc, f, _ => by simp [textD, accF]
  | (d, o) :: l, hl, rest, acc, f, hf => by
    have hdo := hl (d, o) (by simp)
    have hl' : ∀ p ∈ l, Dead p.1 ∧ WfOp p.2 := fun p hp => hl p (by simp [hp])
    simp only [List.map_cons, wOps] at hf
    have htext : textD ((d, o) :: l) ++ rest = d ++ (lineOp 0 o ++ 10 :: (textD l ++ rest)) := by simp [textD]
    rw [htext, parseOpsGo_skip_dead _ _ _ _ _ hdo.1]
    have hlen : f + ((d, o) :: l).length = (f + l.length) + 1 := by simp only [List.length_cons]; omega
    rw [hlen, go_op o hdo.2 0 false _ acc (f + l.length) (by omega)]
    rw [go_textD l hl' rest _ f (by omega)]
    simp only [List.map_cons, accF]

theorem textD_length : ∀ (l : List (List Nat × TOp)), wOps (l.map (·.2)) + l.length ≤ (textD l).length
  | [] => by simp [wOps, textD]
  | (d, o) :: l => by
    have h1 := wOp_le_length o 0
    have h2 := textD_length l
    simp only [List.map_cons, wOps, textD, List.length_append, List.length_cons]
    omega

/-- **White space and comment lines around the operations of a file do not change what it means.** -/
theorem dead_text_ignored (l : List (List Nat × TOp)) (hl : ∀ p ∈ l, Dead p.1 ∧ WfOp p.2) (tail : List Nat) (ht : Dead tail) :
    parseText (textD l ++ tail) = .ok (fuseList (l.map (·.2)) []) [] := by
  unfold parseText
  have hw := textD_length l
  obtain ⟨f, hf⟩ : ∃ f, (textD l ++ tail).length + 2 = (f + 1) + l.length :=
    ⟨(textD l ++ tail).length + 1 - l.length, by simp only [List.length_append] at *; omega⟩
  have hwf : wOps (l.map (·.2)) ≤ f + 1 := by simp only [List.length_append] at hf; omega
  rw [hf, go_textD l hl tail [] (f + 1) hwf, fuseList_eq_accF]
  have := parseOpsGo_skip_dead tail [] (f + 1) false (accF (l.map (·.2)) []) ht
  rw [List.append_nil] at this
  rw [this]
  unfold parseOpsGo
  simp [skipDead]

/-- the plain file and the commented file mean the same -/
theorem comments_do_not_matter (l : List (List Nat × TOp)) (hl : ∀ p ∈ l, Dead p.1 ∧ WfOp p.2) (tail : List Nat) (ht : Dead tail)
    (hwf : WfOps (l.map (·.2))) :
    parseText (textD l ++ tail) = parseText (linesOps 0 (l.map (·.2))) := by
  rw [dead_text_ignored l hl tail ht, block_round_trip _ hwf]

/-- non-vacuity: `"  # c\n\n"` is dead text -/
example : Dead [32, 32, 35, 32, 99, 10, 10] :=
  .ws 32 _ (by decide) (.ws 32 _ (by decide) (.comment [32, 99] [10] (by decide) (.ws 10 _ (by decide) .nil)))

end Stim.C07
