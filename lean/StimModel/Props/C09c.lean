import StimModel.Props.C09
import StimModel.Props.C09b
/-!
# C09 (continued): whole files

The per-record theorems (`rt_01`, `rt_b8`, `rt_r8`, `rt_hits`, `rt_dets`) are stated in "parser" form: decoding the encoding of a
record followed by arbitrary bytes returns the record and exactly those bytes.  Hence, for every format and every table of shots:

* `rt_record`: the uniform statement for the five record-oriented formats;
* `rt_file`: reading a file that is the concatenation of the encoded records returns exactly the table — whether the reader asks
  for exactly the number of shots or for more (the extra requests see a clean end of data), with no error flagged.
-/
namespace Stim.C09
open Stim Stim.Fmt

theorem decode_nil (f : Format) (s : Split) : decode f s [] = .eof := by
  cases f
  · simp only [decode, dec01]
    by_cases h : s.n > 0
    · simp [h]
    · have : s.n = 0 := by omega
      simp [this, dec01Go]
  · simp [decode, decB8]
  · simp [decode, decR8]
  · simp [decode, decHits, decHitsGo]
  · simp [decode, decDets, skipWs]

/-- **One record, any of the five record-oriented formats.** -/
theorem rt_record (f : Format) (s : Split) (bits : List Bool) (rest : List Nat) (hlen : bits.length = s.n) (hn : s.n ≤ 2^64)
    (hb8 : f = .b8 → 0 < s.n) : decode f s (encode f s bits ++ rest) = .ok bits rest := by
  cases f
  · simp only [decode, encode]; rw [← hlen]; exact rt_01 bits rest
  · simp only [decode, encode]; rw [← hlen]
    exact rt_b8 bits rest (by intro h; have := hb8 rfl; rw [← hlen, h] at this; simp at this)
  · simp only [decode, encode]; rw [← hlen]; exact rt_r8 bits rest
  · simp only [decode, encode]; rw [← hlen]; exact rt_hits bits rest (by rw [hlen]; exact hn)
  · simp only [decode, encode]; exact rt_dets s bits rest hlen hn

/-- **A whole file: the concatenated encodings of any table of shots decode to that table**, for every number `k` of additional
    shots the reader may ask for. -/
theorem rt_file (f : Format) (s : Split) (hn : s.n ≤ 2^64) (hb8 : f = .b8 → 0 < s.n) :
    ∀ (rows : List (List Bool)) (k : Nat), (∀ r ∈ rows, r.length = s.n) →
      decodeAll f s (rows.length + k) ((rows.map (encode f s)).flatten) = (rows, false)
  | [], k, _ => by
    cases k with
    | zero => simp [decodeAll]
    | succ k => simp [decodeAll, decode_nil]
  | r :: rows, k, h => by
    have hr := rt_record f s r ((rows.map (encode f s)).flatten) (h r (by simp)) hn hb8
    have ih := rt_file f s hn hb8 rows k (fun x hx => h x (by simp [hx]))
    have e : (r :: rows).length + k = (rows.length + k) + 1 := by simp; omega
    rw [e]
    simp only [List.map_cons, List.flatten_cons, decodeAll, hr, ih]

example : decodeAll .r8 ⟨3, 0, 0⟩ 5 (([[true, false, true], [false, false, false]].map (encode .r8 ⟨3, 0, 0⟩)).flatten)
    = ([[true, false, true], [false, false, false]], false) :=
  rt_file .r8 ⟨3, 0, 0⟩ (by decide) (by intro h; cases h) [[true, false, true], [false, false, false]] 3 (by decide)

end Stim.C09
