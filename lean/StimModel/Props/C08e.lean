import StimModel.Props.C08d
import StimModel.Props.C07h
/-!
# C08 (continued): blank lines, indentation and comment lines between model instructions are ignored

The DEM reader shares its dead-space scanner with the circuit reader (`C07h.skipDead_dead`).  Proved:
`dem_dead_text_ignored` — a model file in which every top-level instruction or `repeat` block (printed canonically) is preceded by
arbitrary white space and `#` comment lines, with more of it at the end, reads back as exactly the same model as the plain file.
-/
namespace Stim.C08b
open Stim Stim.Text Stim.DemText
open Stim.C07 (Dead skipDead_dead)

theorem parseDemOpsGo_skip_dead (d b : List Nat) (f : Nat) (inB : Bool) (acc : List TDem) (h : Dead d) :
    parseDemOpsGo f inB (d ++ b) acc = parseDemOpsGo f inB b acc := by
  cases f with
  | zero => simp [parseDemOpsGo]
  | succ f =>
    have hs := skipDead_dead d h b
    unfold parseDemOpsGo
    simp only [hs]

/-- the text of a top-level model with dead text in front of every instruction -/
def demTextD : List (List Nat × TDem) → List Nat
  | [] => []
  | (d, o) :: rest => d ++ (lineDem 0 o ++ 10 :: demTextD rest)

theorem go_demTextD : ∀ (l : List (List Nat × TDem)), (∀ p ∈ l, Dead p.1 ∧ WfDem p.2) →
    ∀ (rest : List Nat) (acc : List TDem) (f : Nat), wDems (l.map (·.2)) ≤ f →
    parseDemOpsGo (f + l.length) false (demTextD l ++ rest) acc = parseDemOpsGo f false rest ((l.map (·.2)).reverse ++ acc)
  | [], _, rest, acc, f, _ => by simp [demTextD]
  | (d, o) :: l, hl, rest, acc, f, hf => by
    have hdo := hl (d, o) (by simp)
    have hl' : ∀ p ∈ l, Dead p.1 ∧ WfDem p.2 := fun p hp => hl p (by simp [hp])
    simp only [List.map_cons, wDems] at hf
    have htext : demTextD ((d, o) :: l) ++ rest = d ++ (lineDem 0 o ++ 10 :: (demTextD l ++ rest)) := by simp [demTextD]
    rw [htext, parseDemOpsGo_skip_dead _ _ _ _ _ hdo.1]
    have hlen : f + ((d, o) :: l).length = (f + l.length) + 1 := by simp only [List.length_cons]; omega
    rw [hlen, go_dem o hdo.2 0 false _ acc (f + l.length) (by omega)]
    rw [go_demTextD l hl' rest _ f (by omega)]
    simp

theorem demTextD_length : ∀ (l : List (List Nat × TDem)), wDems (l.map (·.2)) + l.length ≤ (demTextD l).length
  | [] => by simp [wDems, demTextD]
  | (d, o) :: l => by
    have h1 := wDem_le_length o 0
    have h2 := demTextD_length l
    simp only [List.map_cons, wDems, demTextD, List.length_append, List.length_cons]
    omega

/-- **White space and comment lines around the instructions of a model file do not change what it means.** -/
theorem dem_dead_text_ignored (l : List (List Nat × TDem)) (hl : ∀ p ∈ l, Dead p.1 ∧ WfDem p.2) (tail : List Nat) (ht : Dead tail) :
    parseDemText (demTextD l ++ tail) = .ok (l.map (·.2)) [] := by
  unfold parseDemText
  have hw := demTextD_length l
  obtain ⟨f, hf⟩ : ∃ f, (demTextD l ++ tail).length + 2 = (f + 1) + l.length :=
    ⟨(demTextD l ++ tail).length + 1 - l.length, by simp only [List.length_append] at *; omega⟩
  have hwf : wDems (l.map (·.2)) ≤ f + 1 := by simp only [List.length_append] at hf; omega
  rw [hf, go_demTextD l hl tail [] (f + 1) hwf]
  have := parseDemOpsGo_skip_dead tail [] (f + 1) false ((l.map (·.2)).reverse ++ []) ht
  rw [List.append_nil] at this
  rw [this]
  unfold parseDemOpsGo
  simp [skipDead]

end Stim.C08b
