import StimModel.Core.Fold
import StimModel.Model.DemSem
/-!
# C06 — loop folding never changes any result

`Core/Fold.lean` proves the argument all three implementations rely on, for an arbitrary deterministic per-iteration
transformer that commutes with index relabelling: once the state after `a + p` iterations is the relabelled state after `a`
iterations, every later period repeats the outputs of the first one relabelled (`fold_sound`), and the
warm-up / whole periods / leftover split accounts for exactly `reps` iterations (`fold_accounting`).
The flattening of a folded model is the naive execution of its repeat blocks (`Dem.flat`, definitional), which is what
the correspondence feeds to the distribution oracle of C03.
-/
namespace Stim.C06
open Stim Stim.Fold

theorem period_repeats {S Out : Type} (Y : Sys S Out) (a p : Nat) (δ : Int) (s : S)
    (h : iter Y (a + p) s = Y.sh δ (iter Y a s)) (j i : Nat) :
    outAt Y (a + j * p + i) s = Y.shOut (j * δ) (outAt Y (a + i) s) :=
  fold_sound Y a p δ s h j i

theorem iterations_accounted (reps a p : Nat) (hp : 0 < p) (ha : a ≤ reps) :
    a + ((reps - a) / p) * p + (reps - a) % p = reps ∧ (reps - a) % p < p :=
  fold_accounting reps a p hp ha

/-- executing a `repeat n` block of a model is executing its body `n` times with the running offsets (definition of the
    flattening the folded model is judged by) -/
theorem repeat_block_unfolds (st : DemState) (n : Nat) (body : List DemOp) :
    demExecRep st (n + 1) body = demExecRep (demExecList st body) n body := by
  simp [demExecRep]

/-- non-vacuity: a concrete relabelling system (states = integers, one step adds 3, outputs the state) with period 1 -/
def toy : Sys Int Int where
  step s := (s + 3, s)
  sh d s := s + d
  shOut d o := o + d
  sh_zero := by intro s; omega
  sh_add := by intro a b s; omega
  shOut_zero := by intro o; omega
  shOut_add := by intro a b o; omega
  equiv := by intro d s; simp; omega

example : iter toy (0 + 1) (5 : Int) = toy.sh 3 (iter toy 0 5) := by decide

end Stim.C06
