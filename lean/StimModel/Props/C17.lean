import StimModel.Model.Search
/-!
# C17 — logical-error searches return genuine, shortest errors

The reference minimum `minLogical` is proved sound and minimal with respect to the enumeration of sub-lists by size; the
correspondence applies the checker (`searchCheck`) and this reference to every answer of the two searches, and decides the
generated MaxSAT instances by exhaustive evaluation (feasible assignments = undetectable logical errors, unit soft clauses).
-/
namespace Stim.C17
open Stim

/-- every list enumerated by `subsetsOfSize k els` has exactly `k` elements and is a sub-list of `els` -/
theorem subsetsOfSize_spec : ∀ (k : Nat) (els s : List Elem), s ∈ subsetsOfSize k els → s.length = k ∧ s.Sublist els
  | 0, els, s, h => by
    cases els <;> simp [subsetsOfSize] at h <;> subst h <;> simp
  | k+1, [], s, h => by simp [subsetsOfSize] at h
  | k+1, x :: xs, s, h => by
    simp only [subsetsOfSize, List.mem_append, List.mem_map] at h
    rcases h with ⟨t, ht, rfl⟩ | h
    · have := subsetsOfSize_spec k xs t ht
      exact ⟨by simp [this.1], List.Sublist.cons₂ x this.2⟩
    · have := subsetsOfSize_spec (k+1) xs s h
      exact ⟨this.1, List.Sublist.cons x this.2⟩

/-- **soundness**: a reported minimum `k` is witnessed by `k` distinct-position elements of the model whose detectors cancel and
    whose observables do not -/
theorem minLogical_sound (els : List Elem) (k : Nat) (h : minLogical els = some k) :
    ∃ s : List Elem, s.length = k ∧ s.Sublist els ∧ isLogical (s.foldl Elem.add Elem.zero) = true := by
  unfold minLogical at h
  have hp := List.find?_some h
  simp only [Bool.and_eq_true, decide_eq_true_eq, List.any_eq_true] at hp
  obtain ⟨_, s, hs, hl⟩ := hp
  have := subsetsOfSize_spec k els s hs
  exact ⟨s, this.1, this.2, hl⟩

/-- **minimality**: no smaller enumerated sub-list is an undetectable logical error -/
theorem minLogical_minimal (els : List Elem) (k : Nat) (h : minLogical els = some k) (j : Nat) (hj : j < k) (hj0 : 0 < j)
    (s : List Elem) (hs : s ∈ subsetsOfSize j els) : isLogical (s.foldl Elem.add Elem.zero) = false := by
  unfold minLogical at h
  rw [List.find?_eq_some_iff_append] at h
  obtain ⟨_, as, bs, hsplit, hall⟩ := h
  -- `range (n+1) = as ++ k :: bs` forces `as = range k`, so `j ∈ as`
  have hlen : as.length = k := by
    have h1 : (List.range (els.length + 1))[as.length]? = some k := by rw [hsplit]; simp
    have h2 : as.length < els.length + 1 := by
      have : as.length < (List.range (els.length + 1)).length := by rw [hsplit]; simp
      simpa using this
    simp [List.getElem?_range h2] at h1; exact h1
  have hmem : j ∈ as := by
    have h1 : (List.range (els.length + 1))[j]? = some j := by
      have : j < els.length + 1 := by
        have : as.length < (List.range (els.length + 1)).length := by rw [hsplit]; simp
        simp at this; omega
      simp [List.getElem?_range this]
    rw [hsplit, List.getElem?_append_left (by omega)] at h1
    exact List.mem_of_getElem? h1
  have hf := hall j hmem
  cases hv : isLogical (List.foldl Elem.add Elem.zero s) with
  | false => rfl
  | true =>
    exfalso
    have hp : (decide (j > 0) && (subsetsOfSize j els).any fun s => isLogical (s.foldl Elem.add Elem.zero)) = true := by
      simp only [Bool.and_eq_true, decide_eq_true_eq, List.any_eq_true]
      exact ⟨hj0, s, hs, hv⟩
    simp [hp] at hf

/-- non-vacuity of the definitions: the sum of an element with itself is empty -/
example : isLogical Elem.zero = false := by decide

end Stim.C17
