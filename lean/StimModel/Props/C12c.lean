import StimModel.Props.C12
/-!
# C12 (continued): propagation through a whole sequence of single-qubit gates is a homomorphism

`after_mul_single` is the one-gate statement.  Here it is lifted to every finite sequence of single-qubit table gates at
arbitrary positions (a circuit layer after layer): `after_mul_sequence1`.  The induction needs that propagation keeps the
length of the string (`conj1_length`), which is also what `PauliString::after` guarantees (it never resizes its argument).
-/
namespace Stim.C12
open Stim

theorem applyAt_length (a : Act1) : ∀ (q : Nat) (xs : List P1), (applyAt a q xs).2.length = xs.length
  | _, [] => by simp [applyAt]
  | 0, _ :: _ => by simp [applyAt]
  | q+1, x :: xs => by
    have ih := applyAt_length a q xs
    simp only [applyAt, List.length_cons]
    omega

/-- propagation through a single-qubit gate never changes the number of qubits of the string -/
theorem conj1_length (a : Act1) (q : Nat) (s : PS) : (s.conj1 a q).ps.length = s.ps.length := by
  simp only [PS.conj1]
  exact applyAt_length a q s.ps

/-- one step of a sequence: the table gate `op.1` on qubit `op.2` -/
def step1 (s : PS) (op : GateRow × Nat) : PS := s.conj1 (Act1.ofTab (fullTab 1 op.1.tab)) op.2

theorem step1_length (s : PS) (op : GateRow × Nat) : (step1 s op).ps.length = s.ps.length := conj1_length _ _ _

/-- propagating a product through any sequence of single-qubit table gates = product of the propagated strings -/
theorem after_mul_sequence1 : ∀ (ops : List (GateRow × Nat)), (∀ op ∈ ops, op.1 ∈ Gen.gates ∧ op.1.arity = 1) →
    ∀ (s t : PS), s.ps.length = t.ps.length →
    ops.foldl step1 (s.mul t) = (ops.foldl step1 s).mul (ops.foldl step1 t)
  | [], _, _, _, _ => rfl
  | op :: ops, h, s, t, hl => by
    simp only [List.foldl_cons]
    have hop := h op (by simp)
    have e : step1 (s.mul t) op = (step1 s op).mul (step1 t op) :=
      after_mul_single op.1 hop.1 hop.2 op.2 s t hl
    rw [e]
    exact after_mul_sequence1 ops (fun o ho => h o (by simp [ho])) _ _ (by rw [step1_length, step1_length, hl])

/-- non-vacuity: H then S on two different qubits of a three-qubit product -/
example : [(Gen.g_H, 0), (Gen.g_S, 2)].foldl step1 ((PS.mk 0 [.X, .Z, .Y]).mul (PS.mk 0 [.Z, .Z, .X]))
    = ([(Gen.g_H, 0), (Gen.g_S, 2)].foldl step1 (PS.mk 0 [.X, .Z, .Y])).mul ([(Gen.g_H, 0), (Gen.g_S, 2)].foldl step1 (PS.mk 0 [.Z, .Z, .X])) := by
  decide

end Stim.C12
