import StimModel.Props.C12i
/-!
# C12 (continued): Clifford circuits preserve commutation

`PauliString::commutes` is compared with `PS.commutes` by the `pauli` area.  Here: conjugating two equal-length strings by the
same table gate never changes whether they commute — `commutes_conj1` (single-qubit gates, any position), `commutes_conj2`
(two-qubit gates, any two positions `p < k`, both target orders), and `commutes_circuit` for every finite circuit of table
unitaries.  The letter-level facts are `decide +kernel` over the whole regenerated table.
-/
namespace Stim.C12
open Stim

def anti1Check (a : Act1) : Bool := P1.all.all fun p => P1.all.all fun q => ((a.f p).2.anti (a.f q).2) == p.anti q

def anti2Check (a : Act2) : Bool :=
  P1.all.all fun x => P1.all.all fun y => P1.all.all fun x' => P1.all.all fun y' =>
    (((a.f x y).2.1.anti (a.f x' y').2.1) ^^ ((a.f x y).2.2.anti (a.f x' y').2.2)) == ((x.anti x') ^^ (y.anti y'))

theorem table_anti1 : oneQubitUnitaries.all (fun g => anti1Check (act1 g)) = true := by decide +kernel
theorem table_anti2 : twoQubitUnitaries.all (fun g => anti2Check (act2 g) && anti2Check (act2 g).swap) = true := by decide +kernel

theorem anti1Check_sound (a : Act1) (h : anti1Check a = true) (p q : P1) : (a.f p).2.anti (a.f q).2 = p.anti q := by
  unfold anti1Check at h
  rw [List.all_eq_true] at h
  have h1 := h p (P1.mem_all p)
  rw [List.all_eq_true] at h1
  simpa using h1 q (P1.mem_all q)

theorem anti2Check_sound (a : Act2) (h : anti2Check a = true) (x y x' y' : P1) :
    (((a.f x y).2.1.anti (a.f x' y').2.1) ^^ ((a.f x y).2.2.anti (a.f x' y').2.2)) = ((x.anti x') ^^ (y.anti y')) := by
  unfold anti2Check at h
  rw [List.all_eq_true] at h
  have h1 := h x (P1.mem_all x)
  rw [List.all_eq_true] at h1
  have h2 := h1 y (P1.mem_all y)
  rw [List.all_eq_true] at h2
  have h3 := h2 x' (P1.mem_all x')
  rw [List.all_eq_true] at h3
  simpa using h3 y' (P1.mem_all y')

theorem antiList_applyAt (a : Act1) (h : ∀ p q, (a.f p).2.anti (a.f q).2 = p.anti q) :
    ∀ (q : Nat) (xs ys : List P1), antiList (applyAt a q xs).2 (applyAt a q ys).2 = antiList xs ys
  | _, [], ys => by cases ys <;> simp [applyAt, antiList]
  | q, x :: xs, [] => by cases q <;> simp [applyAt, antiList]
  | 0, x :: xs, y :: ys => by simp [applyAt, antiList, h]
  | q+1, x :: xs, y :: ys => by
    have ih := antiList_applyAt a h q xs ys
    simp only [applyAt, antiList, ih]

/-- a single-qubit table gate at any position preserves commutation -/
theorem commutes_conj1 (g : GateRow) (hg : g ∈ oneQubitUnitaries) (q : Nat) (s t : PS) :
    (s.conj1 (act1 g) q).commutes (t.conj1 (act1 g) q) = s.commutes t := by
  have hall := table_anti1
  rw [List.all_eq_true] at hall
  have hh := anti1Check_sound _ (hall g hg)
  simp only [PS.commutes, PS.conj1]
  rw [antiList_applyAt _ hh]

theorem antiList_append : ∀ (L L' R R' : List P1), L.length = L'.length →
    antiList (L ++ R) (L' ++ R') = (antiList L L' ^^ antiList R R')
  | [], [], R, R', _ => by simp [antiList]
  | [], _ :: _, _, _, h => by simp at h
  | _ :: _, [], _, _, h => by simp at h
  | x :: L, y :: L', R, R', h => by
    have ih := antiList_append L L' R R' (by simpa using h)
    simp only [List.cons_append, antiList, ih]
    cases x.anti y <;> cases antiList L L' <;> cases antiList R R' <;> rfl

theorem commutes_conj2_of (a : Act2) (h : anti2Check a = true) (p k : Nat) (s t : PS) (hp : p < k)
    (hk : k < s.ps.length) (hl : s.ps.length = t.ps.length) :
    (conj2 a p k s).commutes (conj2 a p k t) = s.commutes t := by
  obtain ⟨L, M, T, x, y, es, hL, hM⟩ := split2 s.ps p k hp hk
  obtain ⟨L', M', T', x', y', et, hL', hM'⟩ := split2 t.ps p k hp (by omega)
  have hs : s = ⟨s.ph, L ++ x :: (M ++ y :: T)⟩ := by rw [← es]
  have ht : t = ⟨t.ph, L' ++ x' :: (M' ++ y' :: T')⟩ := by rw [← et]
  have hk1 : k = L.length + 1 + M.length := by omega
  have hk2 : k = L'.length + 1 + M'.length := by omega
  have hp1 : p = L.length := hL.symm
  have hp2 : p = L'.length := hL'.symm
  have key := anti2Check_sound a h x y x' y'
  rw [hs, ht]
  conv => lhs; arg 1; rw [hp1, hk1, conj2_split]
  conv => lhs; arg 2; rw [hp2, hk2, conj2_split]
  simp only [PS.commutes]
  rw [antiList_append _ _ _ _ (by omega), antiList_append _ _ _ _ (by omega)]
  simp only [antiList]
  rw [antiList_append _ _ _ _ (by omega), antiList_append _ _ _ _ (by omega)]
  simp only [antiList]
  revert key
  cases antiList L L' <;> cases antiList M M' <;> cases antiList T T' <;>
  cases (a.f x y).2.1.anti (a.f x' y').2.1 <;> cases (a.f x y).2.2.anti (a.f x' y').2.2 <;>
  cases x.anti x' <;> cases y.anti y' <;> simp

/-- every operation of a Clifford circuit preserves commutation -/
theorem COp.apply_commutes (op : COp) (s t : PS) (hl : s.ps.length = t.ps.length) (hok : op.okU s.ps.length) :
    (op.apply s).commutes (op.apply t) = s.commutes t := by
  cases op with
  | one g q => exact commutes_conj1 g hok q s t
  | two g a b =>
    obtain ⟨hg, hne, ha, hb⟩ := hok
    have hall := table_anti2
    rw [List.all_eq_true] at hall
    have := hall g hg
    simp only [Bool.and_eq_true] at this
    simp only [COp.apply]
    split
    · exact commutes_conj2_of _ this.1 a b s t (by assumption) hb hl
    · exact commutes_conj2_of _ this.2 b a s t (by omega) ha hl

/-- **conjugating two strings by the same Clifford circuit never changes whether they commute** -/
theorem commutes_circuit : ∀ (ops : List COp) (s t : PS), s.ps.length = t.ps.length →
    (∀ op ∈ ops, op.okU s.ps.length) →
    (ops.foldl COp.apply s).commutes (ops.foldl COp.apply t) = s.commutes t
  | [], _, _, _, _ => rfl
  | op :: ops, s, t, hl, hok => by
    simp only [List.foldl_cons]
    rw [commutes_circuit ops _ _ (by rw [COp.apply_length, COp.apply_length, hl])
      (fun o ho => by rw [COp.apply_length]; exact hok o (by simp [ho]))]
    exact COp.apply_commutes op s t hl (hok op (by simp))

end Stim.C12
