import StimModel.Props.C12b
import StimModel.Props.C12c
/-!
# C12 (continued): two-qubit gates by position, and whole Clifford circuits

`after_mul_pair` is stated in split form (`L ++ x :: (M ++ y :: T)`).  `after_mul_pair_pos` restates it for two arbitrary
positions `p < k` inside the string, `after_mul_pair_pos_swapped` for a gate whose first target is the later position, and
`after_mul_circuit` lifts both, with `after_mul_single`, to **every finite sequence of one- and two-qubit table unitaries on
in-range targets**: propagating a product through a Clifford circuit is the product of the propagated strings, phases included.
-/
namespace Stim.C12
open Stim

/-- any list with two positions `p < k` inside it splits around them -/
theorem split2 (l : List P1) (p k : Nat) (hp : p < k) (hk : k < l.length) :
    ∃ L M T x y, l = L ++ x :: (M ++ y :: T) ∧ L.length = p ∧ M.length = k - p - 1 := by
  refine ⟨l.take p, (l.drop (p+1)).take (k - p - 1), l.drop (k+1), l[p]'(by omega), l[k], ?_, ?_, ?_⟩
  · have e1 : l = l.take p ++ l.drop p := (List.take_append_drop p l).symm
    have e2 : l.drop p = l[p]'(by omega) :: l.drop (p+1) := List.drop_eq_getElem_cons (by omega)
    have e3 : l.drop (p+1) = (l.drop (p+1)).take (k-p-1) ++ (l.drop (p+1)).drop (k-p-1) := (List.take_append_drop _ _).symm
    have e4 : (l.drop (p+1)).drop (k-p-1) = l.drop k := by
      rw [List.drop_drop]; congr 1; omega
    have e5 : l.drop k = l[k] :: l.drop (k+1) := List.drop_eq_getElem_cons hk
    conv => lhs; rw [e1, e2, e3, e4, e5]
  · simp; omega
  · simp; omega

theorem conj2_length (a : Act2) (p k : Nat) (s : PS) : (conj2 a p k s).ps.length = s.ps.length := by
  simp [conj2]

theorem mul_pos_of_hom (a : Act2) (h : a.Hom) (p k : Nat) (s t : PS) (hp : p < k) (hk : k < s.ps.length)
    (hl : s.ps.length = t.ps.length) :
    conj2 a p k (s.mul t) = (conj2 a p k s).mul (conj2 a p k t) := by
  obtain ⟨L, M, T, x, y, es, hL, hM⟩ := split2 s.ps p k hp hk
  obtain ⟨L', M', T', x', y', et, hL', hM'⟩ := split2 t.ps p k hp (by omega)
  have hs : s = ⟨s.ph, L ++ x :: (M ++ y :: T)⟩ := by rw [← es]
  have ht : t = ⟨t.ph, L' ++ x' :: (M' ++ y' :: T')⟩ := by rw [← et]
  have key := conj2_mul_split a h s.ph t.ph L M T L' M' T' x y x' y' (by omega) (by omega)
  have hk' : L.length + 1 + M.length = k := by omega
  rw [hk', hL] at key
  rw [hs, ht]
  exact key.symm

/-- `after` is multiplicative for a two-qubit table gate on positions `p < k` -/
theorem after_mul_pair_pos (g : GateRow) (hg : g ∈ twoQubitUnitaries) (p k : Nat) (s t : PS) (hp : p < k)
    (hk : k < s.ps.length) (hl : s.ps.length = t.ps.length) :
    conj2 (Act2.ofTab (fullTab 2 g.tab)) p k (s.mul t)
      = (conj2 (Act2.ofTab (fullTab 2 g.tab)) p k s).mul (conj2 (Act2.ofTab (fullTab 2 g.tab)) p k t) :=
  mul_pos_of_hom _ (gate_hom2 g hg) p k s t hp hk hl

/-- … and with the gate's first target on the later position -/
theorem after_mul_pair_pos_swapped (g : GateRow) (hg : g ∈ twoQubitUnitaries) (p k : Nat) (s t : PS) (hp : p < k)
    (hk : k < s.ps.length) (hl : s.ps.length = t.ps.length) :
    conj2 (Act2.ofTab (fullTab 2 g.tab)).swap p k (s.mul t)
      = (conj2 (Act2.ofTab (fullTab 2 g.tab)).swap p k s).mul (conj2 (Act2.ofTab (fullTab 2 g.tab)).swap p k t) :=
  mul_pos_of_hom _ (Act2.swap_hom _ (gate_hom2 g hg)) p k s t hp hk hl

/-- one operation of a Clifford circuit: a single-qubit table gate, or a two-qubit table gate with its targets in either order -/
inductive COp where
  | one (g : GateRow) (q : Nat)
  | two (g : GateRow) (first second : Nat)

def COp.ok (n : Nat) : COp → Prop
  | .one g _ => g ∈ Gen.gates ∧ g.arity = 1
  | .two g a b => g ∈ twoQubitUnitaries ∧ a ≠ b ∧ a < n ∧ b < n

def COp.apply (s : PS) : COp → PS
  | .one g q => s.conj1 (Act1.ofTab (fullTab 1 g.tab)) q
  | .two g a b => if a < b then conj2 (Act2.ofTab (fullTab 2 g.tab)) a b s
                  else conj2 (Act2.ofTab (fullTab 2 g.tab)).swap b a s

theorem COp.apply_length (s : PS) (op : COp) : (op.apply s).ps.length = s.ps.length := by
  cases op with
  | one g q => exact conj1_length _ _ _
  | two g a b => simp only [COp.apply]; split <;> exact conj2_length _ _ _ _

theorem COp.apply_mul (op : COp) (s t : PS) (hl : s.ps.length = t.ps.length) (hok : op.ok s.ps.length) :
    op.apply (s.mul t) = (op.apply s).mul (op.apply t) := by
  cases op with
  | one g q => exact after_mul_single g hok.1 hok.2 q s t hl
  | two g a b =>
    obtain ⟨hg, hne, ha, hb⟩ := hok
    simp only [COp.apply]
    split
    · exact after_mul_pair_pos g hg a b s t (by assumption) hb hl
    · exact after_mul_pair_pos_swapped g hg b a s t (by omega) ha hl

/-- **propagating a product through any Clifford circuit of table gates is the product of the propagated strings** -/
theorem after_mul_circuit : ∀ (ops : List COp) (s t : PS), s.ps.length = t.ps.length →
    (∀ op ∈ ops, op.ok s.ps.length) →
    ops.foldl COp.apply (s.mul t) = (ops.foldl COp.apply s).mul (ops.foldl COp.apply t)
  | [], _, _, _, _ => rfl
  | op :: ops, s, t, hl, hok => by
    simp only [List.foldl_cons]
    rw [COp.apply_mul op s t hl (hok op (by simp))]
    refine after_mul_circuit ops _ _ (by rw [COp.apply_length, COp.apply_length, hl]) ?_
    intro o ho
    rw [COp.apply_length]
    exact hok o (by simp [ho])

/-- non-vacuity: H 0; CX 0 2; CX 2 1 on three qubits — the hypotheses hold and both sides are the same concrete string -/
example : (COp.two Gen.g_CX 2 1).ok 3 := ⟨by decide, by decide, by decide, by decide⟩
example : [COp.one Gen.g_H 0, .two Gen.g_CX 0 2, .two Gen.g_CX 2 1].foldl COp.apply ((PS.mk 0 [.X, .Z, .Y]).mul (PS.mk 2 [.Z, .Z, .X]))
    = ([COp.one Gen.g_H 0, .two Gen.g_CX 0 2, .two Gen.g_CX 2 1].foldl COp.apply (PS.mk 0 [.X, .Z, .Y])).mul
      ([COp.one Gen.g_H 0, .two Gen.g_CX 0 2, .two Gen.g_CX 2 1].foldl COp.apply (PS.mk 2 [.Z, .Z, .X])) := by decide

end Stim.C12
