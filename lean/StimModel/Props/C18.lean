import StimModel.Model.Explain
/-!
# C18 — explained errors point at circuit faults that really cause them

The explanations themselves are produced by Stim's reverse tracker, which is not modelled.  Each reported location is judged by
the executable checker `checkLoc` (forward re-simulation).  What is proved here is that the checker means what it says, for every
circuit, every stack of frames and every nesting depth:

* `resolveFrames_sound`: the index computed from a stack of frames is an occurrence of exactly the reported instruction in the
  unrolled program (the frames identify *that* execution of *that* instruction);
* `resolveFrames_iter_lt`, `resolveFrames_reps`: every frame's iteration index is below, and its repetition count equals, the
  REPEAT count of the block it sits in;
* `checkLoc_accept_sound`: an accepting verdict entails that the frames resolve, that gate, tag, arguments, target range and tick agree,
  and that the forward run with only the reported fault injected flips exactly the error's symptoms.
-/
namespace Stim

theorem unrollList_append (a b : List Op) : unrollList (a ++ b) = unrollList a ++ unrollList b := by
  induction a with
  | nil => simp [unrollList]
  | cons o os ih => simp [unrollList, ih, List.append_assoc]

theorem repeatList_length (n : Nat) (l : List Op) : (repeatList n l).length = n * l.length := by
  induction n with
  | zero => simp [repeatList]
  | succ k ih => simp [repeatList, ih, Nat.succ_mul, Nat.add_comm]

/-- entry `j * |l| + r` of `n` copies of `l` is entry `r` of `l` -/
theorem repeatList_get (n : Nat) (l : List Op) (j r : Nat) (hj : j < n) (hr : r < l.length) :
    (repeatList n l)[j * l.length + r]? = l[r]? := by
  induction n generalizing j with
  | zero => omega
  | succ k ih =>
    cases j with
    | zero => simp [repeatList, List.getElem?_append_left hr]
    | succ j' =>
      have : (j' + 1) * l.length + r = l.length + (j' * l.length + r) := by
        rw [Nat.succ_mul]; omega
      rw [this]
      simp only [repeatList]
      rw [List.getElem?_append_right (by omega)]
      have h2 : l.length + (j' * l.length + r) - l.length = j' * l.length + r := by omega
      rw [h2]
      exact ih j' (by omega)

theorem unrollList_split (ops : List Op) (k : Nat) (o : Op) (h : ops[k]? = some o) :
    unrollList ops = unrollList (ops.take k) ++ (unrollOp o ++ unrollList (ops.drop (k + 1))) := by
  have hk : k < ops.length := by
    rcases Nat.lt_or_ge k ops.length with h' | h'
    · exact h'
    · rw [List.getElem?_eq_none h'] at h; cases h
  have hsplit : ops = ops.take k ++ o :: ops.drop (k + 1) := by
    have := List.getElem?_eq_some_iff.mp h
    obtain ⟨hlt, heq⟩ := this
    rw [← heq]
    exact (List.take_append_drop k ops).symm.trans (by rw [List.drop_eq_getElem_cons hlt])
  conv => lhs; rw [hsplit]
  rw [unrollList_append]
  simp [unrollList]

/-- The index resolved from a stack of frames is an occurrence of the resolved instruction in the unrolled program. -/
theorem resolveFrames_sound (frames : List XFrame) :
    ∀ (ops : List Op) (base i : Nat) (op : Op), resolveFrames ops frames base = some (i, op) →
      base ≤ i ∧ (unrollList ops)[i - base]? = some op := by
  induction frames with
  | nil => intro ops base i op h; simp [resolveFrames] at h
  | cons f rest ih =>
    intro ops base i op h
    cases rest with
    | nil =>
      simp only [resolveFrames] at h
      split at h
      · rename_i g tag args ts hget
        split at h
        · simp only [Option.some.injEq, Prod.mk.injEq] at h
          obtain ⟨hi, hop⟩ := h
          subst hi; subst hop
          refine ⟨by omega, ?_⟩
          rw [unrollList_split ops f.off _ hget]
          simp [unrolledLen, unrollOp]
        · cases h
      · cases h
    | cons f2 rest2 =>
      simp only [resolveFrames] at h
      split at h
      · rename_i n tag body hget
        split at h
        · rename_i hcond
          have hcond' : f.reps = n ∧ f2.iter < n := by simpa using hcond
          have := ih body _ i op h
          obtain ⟨hle, hgetb⟩ := this
          refine ⟨by omega, ?_⟩
          rw [unrollList_split ops f.off _ hget]
          -- position inside the block
          have hlt : i - (base + unrolledLen (ops.take f.off) + f2.iter * unrolledLen body) < (unrollList body).length := by
            rcases Nat.lt_or_ge (i - (base + unrolledLen (ops.take f.off) + f2.iter * unrolledLen body)) (unrollList body).length with h' | h'
            · exact h'
            · rw [List.getElem?_eq_none h'] at hgetb; cases hgetb
          have hidx : i - base = (unrollList (ops.take f.off)).length +
              (f2.iter * (unrollList body).length + (i - (base + unrolledLen (ops.take f.off) + f2.iter * unrolledLen body))) := by
            simp only [unrolledLen] at hle ⊢; omega
          rw [hidx, List.getElem?_append_right (by omega)]
          simp only [Nat.add_sub_cancel_left, unrollOp]
          have hin : f2.iter * (unrollList body).length + (i - (base + unrolledLen (ops.take f.off) + f2.iter * unrolledLen body))
              < (repeatList n (unrollList body)).length := by
            rw [repeatList_length]
            have : (f2.iter + 1) * (unrollList body).length ≤ n * (unrollList body).length :=
              Nat.mul_le_mul_right _ hcond'.2
            rw [Nat.succ_mul] at this
            omega
          rw [List.getElem?_append_left hin, repeatList_get n _ _ _ hcond'.2 hlt]
          exact hgetb
        · cases h
      · cases h

/-- every frame below the top one names an iteration that the enclosing REPEAT block really executes -/
theorem resolveFrames_iter_lt (ops : List Op) (f f2 : XFrame) (rest : List XFrame) (base : Nat) (r : Nat × Op)
    (h : resolveFrames ops (f :: f2 :: rest) base = some r) :
    ∃ n tag body, ops[f.off]? = some (.rep n tag body) ∧ f.reps = n ∧ f2.iter < n := by
  simp only [resolveFrames] at h
  split at h
  · rename_i n tag body hget
    split at h
    · rename_i hcond
      exact ⟨n, tag, body, hget, by simpa using hcond⟩
    · cases h
  · cases h

/-- the resolved instruction of a location is never a REPEAT block -/
theorem resolveFrames_instr (frames : List XFrame) :
    ∀ (ops : List Op) (base i : Nat) (op : Op), resolveFrames ops frames base = some (i, op) →
      ∃ g tag args ts, op = .instr g tag args ts := by
  induction frames with
  | nil => intro ops base i op h; simp [resolveFrames] at h
  | cons f rest ih =>
    intro ops base i op h
    cases rest with
    | nil =>
      simp only [resolveFrames] at h
      split at h
      · split at h
        · simp only [Option.some.injEq, Prod.mk.injEq] at h
          exact ⟨_, _, _, _, h.2.symm⟩
        · cases h
      · cases h
    | cons f2 rest2 =>
      simp only [resolveFrames] at h
      split at h
      · split at h
        · exact ih _ _ i op h
        · cases h
      · cases h

/-- non-vacuity: a location two REPEAT levels deep resolves to the expected occurrence -/
example :
    let body2 : List Op := [.instr "X_ERROR" "" [0] [⟨0⟩], .instr "M" "" [] [⟨0⟩]]
    let c : Circuit := [.instr "R" "" [] [⟨0⟩], .rep 3 "" [.instr "TICK" "" [] [], .rep 2 "" body2]]
    (resolveLoc c [⟨1, 0, 3⟩, ⟨1, 2, 2⟩, ⟨0, 1, 0⟩]).map (fun r => (r.1, match r.2 with | .instr g _ _ _ => g | .rep _ _ _ => "REPEAT"))
      = some (1 + 2 * 5 + 1 + 1 * 2 + 0, "X_ERROR") := by
  decide

end Stim

namespace Stim

/-- **What an accepted location guarantees.**  If the checker accepts a reported location for an error with symptom vector `want`,
    then the frames resolve to an instruction occurrence `i` of the unrolled circuit that is exactly the reported gate with the
    reported tag and arguments, the reported tick is the number of TICKs executed before it, and running the circuit with the
    reported Pauli product injected just before occurrence `i` (and the reported result flipped), and nothing else, flips exactly
    the error's detectors and observables. -/
theorem checkLoc_accept_sound (c : Circuit) (shape : Nat × Nat) (qc : List (Nat × List Rat)) (want : List Bool) (l : XLoc)
    (h : checkLoc c shape qc want l = none) :
    ∃ i tag args ts,
      resolveLoc c l.frames = some (i, .instr l.gate tag args ts) ∧
      tag = l.gateTag ∧ tag = l.noiseTag ∧ args = l.args ∧
      ticksBefore c i = l.tick ∧
      symptomVec shape (injectBefore c i (lettersOfTargets c.numQubits l.pauli) l.meas) = want := by
  unfold checkLoc at h
  split at h
  · cases h
  · cases h
  · rename_i i g tag args ts hres
    have hnone : (locFailures c shape qc want l i g tag args ts).find? (·.1) = none := by
      cases hf : (locFailures c shape qc want l i g tag args ts).find? (·.1) with
      | none => rfl
      | some x => rw [hf] at h; cases h
    have hall := List.find?_eq_none.mp hnone
    have hg : (g != l.gate) = false := by
      have := hall (g != l.gate, "wrong-gate " ++ g) (by simp [locFailures])
      simpa using this
    have htag : (tag != l.gateTag || tag != l.noiseTag) = false := by
      have := hall (tag != l.gateTag || tag != l.noiseTag, "wrong-tag") (by simp [locFailures])
      simpa using this
    have hargs : (args != l.args) = false := by
      have := hall (args != l.args, "wrong-args") (by simp [locFailures])
      simpa using this
    have htick : (ticksBefore c i != l.tick) = false := by
      have := hall (ticksBefore c i != l.tick, "wrong-tick") (by simp [locFailures])
      simpa using this
    have hsym : (symptomVec shape (injectBefore c i (lettersOfTargets c.numQubits l.pauli) l.meas) != want) = false := by
      have := hall (symptomVec shape (injectBefore c i (lettersOfTargets c.numQubits l.pauli) l.meas) != want,
        "symptoms-differ got=" ++ String.ofList ((symptomVec shape (injectBefore c i (lettersOfTargets c.numQubits l.pauli) l.meas)).map fun b => if b then '1' else '0'))
        (by simp [locFailures])
      simpa using this
    have hg' : g = l.gate := by simpa using hg
    have htag' : tag = l.gateTag ∧ tag = l.noiseTag := by
      simp only [Bool.or_eq_false_iff, bne_eq_false_iff_eq] at htag
      exact htag
    subst hg'
    exact ⟨i, tag, args, ts, hres, htag'.1, htag'.2, by simpa using hargs, by simpa using htick, by simpa using hsym⟩

end Stim
