import StimModel.Props.C09
/-! ### hits: print → parse round trip -/
namespace Stim.C09
open Stim Stim.Fmt

theorem foldl10_mono (ds : List Nat) (acc : Nat) : acc ≤ ds.foldl (fun a d => a * 10 + d) acc := by
  induction ds generalizing acc with
  | nil => simp
  | cons d ds ih =>
    simp only [List.foldl_cons]
    have := ih (acc * 10 + d)
    omega

theorem readU64Go_digits (ds rest : List Nat) (acc : Nat)
    (hd : ∀ d ∈ ds, d < 10) (hr : ∀ c, rest.head? = some c → isDigit c = false)
    (hlim : ds.foldl (fun a d => a * 10 + d) acc < 2^64) :
    readU64Go acc (ds.map (· + 48) ++ rest) = some (ds.foldl (fun a d => a * 10 + d) acc, rest) := by
  induction ds generalizing acc with
  | nil =>
    cases rest with
    | nil => simp [readU64Go]
    | cons c cs =>
      have := hr c rfl
      simp [readU64Go, this]
  | cons d ds ih =>
    have hdlt : d < 10 := hd d (by simp)
    have hdig : isDigit (d + 48) = true := by simp [isDigit]; omega
    simp only [List.map_cons, List.cons_append, readU64Go, hdig, if_true, List.foldl_cons] at hlim ⊢
    have hsub : d + 48 - 48 = d := by omega
    rw [hsub]
    have hv : acc * 10 + d < 2^64 := Nat.lt_of_le_of_lt (foldl10_mono ds _) hlim
    have hmod : (acc * 10 + d) % 2^64 = acc * 10 + d := Nat.mod_eq_of_lt hv
    rw [hmod]
    have hnot : ¬ (acc * 10 + d < acc) := by omega
    simp only [hnot, if_false]
    exact ih _ (fun x hx => hd x (by simp [hx])) hlim

theorem readU64_digitsOf (i : Nat) (rest : List Nat) (hi : i < 2^64) (hr : ∀ c, rest.head? = some c → isDigit c = false) :
    readU64Go 0 (digitsOf i ++ rest) = some (i, rest) := by
  have hval := Uint.value_digits i
  simp only [Uint.value] at hval
  have := readU64Go_digits (Uint.digits i) rest 0 (Uint.digits_lt10 i) hr (by rw [hval]; exact hi)
  rw [hval] at this
  exact this

theorem digitsOf_cons (i : Nat) : ∃ d ds, digitsOf i = (d + 48) :: ds ∧ d < 10 := by
  unfold digitsOf
  cases hds : Uint.digits i with
  | nil =>
    unfold Uint.digits at hds
    split at hds <;> simp at hds
  | cons d ds => exact ⟨d, ds.map (· + 48), by simp, Uint.digits_lt10 i d (by rw [hds]; simp)⟩

/-- the reader's loop over an encoded, comma separated index list -/
theorem decHitsGo_enc (n : Nat) (hn : n ≤ 2^64) : ∀ (is : List Nat) (hits rest : List Nat) (fuel : Nat) (first : Bool),
    fuel ≥ is.length + 1 → (∀ i ∈ is, i < n) → (is ≠ [] ∨ first = true) →
    decHitsGo n fuel (intercalateComma (is.map digitsOf) ++ NL :: rest) first hits = .ok (hits ++ is) rest
  | [], hits, rest, fuel, first, hf, _, hne => by
    have hfirst : first = true := by rcases hne with h | h; exact absurd rfl h; exact h
    obtain ⟨f, rfl⟩ : ∃ f, fuel = f + 1 := ⟨fuel - 1, by simp at hf; omega⟩
    subst hfirst
    simp [intercalateComma, decHitsGo, NL, CR, isDigit]
  | i :: is', hits, rest, fuel, first, hf, hlt, _ => by
    obtain ⟨f, rfl⟩ : ∃ f, fuel = f + 1 := ⟨fuel - 1, by simp at hf; omega⟩
    have hi : i < n := hlt i (List.mem_cons_self ..)
    obtain ⟨d, ds, hdd, hdlt⟩ := digitsOf_cons i
    have hdig : isDigit (d + 48) = true := by simp [isDigit]; omega
    cases his : is' with
    | nil =>
      -- last index: followed by the newline
      have hread := readU64_digitsOf i (NL :: rest) (by omega) (by intro c h; simp at h; subst h; decide)
      simp only [List.map_cons, List.map_nil, intercalateComma]
      rw [hdd] at hread ⊢
      simp only [List.cons_append, decHitsGo, hdig, if_true] at hread ⊢
      rw [hread]
      have hge : ¬ (i ≥ n) := by omega
      simp [hge, NL, CR]
    | cons j js =>
      have hread := readU64_digitsOf i (COMMA :: (intercalateComma ((j :: js).map digitsOf) ++ NL :: rest)) (by omega)
        (by intro c h; simp at h; subst h; decide)
      have ih := decHitsGo_enc n hn (j :: js) (hits ++ [i]) rest f false (by simp [his] at hf ⊢; omega)
        (fun x hx => hlt x (by rw [his]; exact List.mem_cons_of_mem _ hx)) (Or.inl (by simp))
      simp only [List.map_cons, intercalateComma, List.append_assoc, List.singleton_append]
      simp only [List.map_cons] at hread ih
      rw [hdd] at hread ⊢
      simp only [List.cons_append, decHitsGo, hdig, if_true] at hread ⊢
      rw [hread]
      have hge : ¬ (i ≥ n) := by omega
      simp only [hge, if_false, COMMA, CR, NL]
      simp only [COMMA, NL] at ih
      simp [ih, List.append_assoc]

end Stim.C09

namespace Stim.C09
open Stim Stim.Fmt

def hitsFrom (k : Nat) (bits : List Bool) : List Nat :=
  (bits.zipIdx k).filterMap fun (b, i) => if b then some i else none

theorem hitIndices_eq (bits : List Bool) : hitIndices bits = hitsFrom 0 bits := rfl

theorem hitsFrom_cons (k : Nat) (b : Bool) (bs : List Bool) :
    hitsFrom k (b :: bs) = (if b then [k] else []) ++ hitsFrom (k + 1) bs := by
  cases b <;> simp [hitsFrom, List.zipIdx_cons]

theorem hitsFrom_lt : ∀ (bits : List Bool) (k : Nat), ∀ x ∈ hitsFrom k bits, x < k + bits.length
  | [], _, x, hx => by simp [hitsFrom] at hx
  | b :: bs, k, x, hx => by
    rw [hitsFrom_cons] at hx
    rcases List.mem_append.mp hx with h | h
    · cases b <;> simp at h
      subst h
      simp only [List.length_cons]; omega
    · have := hitsFrom_lt bs (k + 1) x h
      simp only [List.length_cons]; omega

theorem hitsFrom_count : ∀ (bits : List Bool) (k i : Nat),
    ((hitsFrom k bits).filter (· == i)).length = if k ≤ i ∧ bits.getD (i - k) false = true then 1 else 0
  | [], k, i => by simp [hitsFrom]
  | b :: bs, k, i => by
    rw [hitsFrom_cons, List.filter_append, List.length_append, hitsFrom_count bs (k + 1) i]
    by_cases hki : k = i
    · subst hki
      have h0 : ¬ (k + 1 ≤ k ∧ bs.getD (k - (k + 1)) false = true) := by omega
      simp only [h0, if_false, Nat.sub_self, List.getD_cons_zero, Nat.le_refl, true_and]
      cases b <;> simp
    · by_cases hlt : k < i
      · have hsub : i - k = (i - (k + 1)) + 1 := by omega
        have hget : (b :: bs).getD (i - k) false = bs.getD (i - (k + 1)) false := by rw [hsub]; simp
        rw [hget]
        have h1 : (k + 1 ≤ i) = True := by simp; omega
        have h2 : (k ≤ i) = True := by simp; omega
        have hfirst : ((if b = true then [k] else []).filter (· == i)).length = 0 := by
          cases b <;> simp [hki]
        rw [hfirst]
        simp [h1, h2]
      · have h1 : ¬ (k + 1 ≤ i) := by omega
        have h2 : ¬ (k ≤ i) := by omega
        have hfirst : ((if b = true then [k] else []).filter (· == i)).length = 0 := by
          cases b <;> simp [hki]
        rw [hfirst]
        simp [h1, h2]

theorem bitsOfHitsXor_hitIndices (bits : List Bool) : bitsOfHitsXor bits.length (hitIndices bits) = bits := by
  apply List.ext_getElem
  · simp [bitsOfHitsXor]
  · intro i h1 h2
    simp only [bitsOfHitsXor, List.getElem_map, List.getElem_range, hitIndices_eq, hitsFrom_count, Nat.zero_le, true_and, Nat.sub_zero]
    have : bits.getD i false = bits[i] := by simp [List.getD, h2]
    rw [this]
    cases bits[i] <;> simp

theorem intercalate_length : ∀ (is : List Nat), is.length ≤ (intercalateComma (is.map digitsOf)).length
  | [] => by simp [intercalateComma]
  | [i] => by
    obtain ⟨d, ds, hd, _⟩ := digitsOf_cons i
    simp [intercalateComma, hd]
  | i :: j :: js => by
    have := intercalate_length (j :: js)
    obtain ⟨d, ds, hd, _⟩ := digitsOf_cons i
    simp only [List.map_cons, intercalateComma, List.length_append, List.length_cons, hd] at this ⊢
    omega

/-- **hits: decoding what the encoder wrote returns exactly the bits and the bytes that followed**, for every record
    (`bits.length ≤ 2^64`: indices are parsed with 64-bit overflow detection). -/
theorem rt_hits (bits : List Bool) (rest : List Nat) (hn : bits.length ≤ 2^64) :
    decHits bits.length (encHits bits ++ rest) = .ok bits rest := by
  unfold decHits encHits
  have hlt : ∀ i ∈ hitIndices bits, i < bits.length := by
    intro i hi
    have := hitsFrom_lt bits 0 i (by rw [← hitIndices_eq]; exact hi)
    simpa using this
  have hfuel : (intercalateComma ((hitIndices bits).map digitsOf) ++ [NL] ++ rest).length + 1 ≥ (hitIndices bits).length + 1 := by
    have := intercalate_length (hitIndices bits)
    simp only [List.length_append]
    omega
  have hgo := decHitsGo_enc bits.length hn (hitIndices bits) [] rest _ true hfuel hlt (Or.inr rfl)
  have happ : intercalateComma ((hitIndices bits).map digitsOf) ++ [NL] ++ rest
      = intercalateComma ((hitIndices bits).map digitsOf) ++ NL :: rest := by simp
  rw [happ] at hfuel ⊢
  rw [happ] at hgo
  rw [hgo]
  simp [bitsOfHitsXor_hitIndices]

example : decHits 5 (encHits [false, true, false, true, true] ++ [48]) = .ok [false, true, false, true, true] [48] :=
  rt_hits _ _ (by decide)

end Stim.C09

/-! ### dets: print → parse round trip -/
namespace Stim.C09
open Stim Stim.Fmt

def detsToken (s : Split) (i : Nat) : List Nat :=
  if i < s.m then [SP, 77] ++ digitsOf i
  else if i < s.m + s.d then [SP, 68] ++ digitsOf (i - s.m)
  else [SP, 76] ++ digitsOf (i - s.m - s.d)

theorem detsTokens_eq (s : Split) (bits : List Bool) : detsTokens s bits = (hitIndices bits).map (detsToken s) := rfl

/-- the body reader over an encoded token list -/
theorem decDetsBody_enc (s : Split) (hn : s.n ≤ 2^64) : ∀ (is : List Nat) (hits rest : List Nat) (fuel : Nat),
    fuel ≥ is.length + 1 → (∀ i ∈ is, i < s.n) →
    decDetsBody s fuel ((is.map (detsToken s)).flatten ++ NL :: rest) hits = .ok (hits ++ is) rest
  | [], hits, rest, fuel, hf, _ => by
    obtain ⟨f, rfl⟩ : ∃ f, fuel = f + 1 := ⟨fuel - 1, by simp at hf; omega⟩
    simp [decDetsBody, NL, CR]
  | i :: is', hits, rest, fuel, hf, hlt => by
    obtain ⟨f, rfl⟩ : ∃ f, fuel = f + 1 := ⟨fuel - 1, by simp at hf; omega⟩
    have hi : i < s.n := hlt i (List.mem_cons_self ..)
    have hsn : s.n = s.m + s.d + s.l := rfl
    have ih := decDetsBody_enc s hn is' (hits ++ [i]) rest f (by simp at hf ⊢; omega)
      (fun x hx => hlt x (List.mem_cons_of_mem _ hx))
    -- what follows the digits never starts with a digit
    have htail : ∀ c, ((is'.map (detsToken s)).flatten ++ NL :: rest).head? = some c → isDigit c = false := by
      intro c h
      cases is' with
      | nil => simp at h; subst h; decide
      | cons j js =>
        simp only [List.map_cons, List.flatten_cons, detsToken] at h
        split at h
        · simp [SP] at h; subst h; decide
        · split at h
          · simp [SP] at h; subst h; decide
          · simp [SP] at h; subst h; decide
    simp only [List.map_cons, List.flatten_cons, List.append_assoc]
    by_cases h1 : i < s.m
    · have hread := readU64_digitsOf i ((is'.map (detsToken s)).flatten ++ NL :: rest) (by omega) htail
      obtain ⟨d, ds, hdd, hdlt⟩ := digitsOf_cons i
      have hdig : isDigit (d + 48) = true := by simp [isDigit]; omega
      have htok : detsToken s i = [SP, 77] ++ digitsOf i := by simp [detsToken, h1]
      rw [htok]
      simp only [List.cons_append, List.nil_append, List.append_assoc]
      rw [hdd] at hread ⊢
      simp only [List.cons_append] at hread ⊢
      simp only [NL] at hread
      have hge : ¬ (i ≥ s.m) := by omega
      unfold decDetsBody
      simp [SP, CR, NL, hdig, hread, hge]
      simpa [NL] using ih
    · by_cases h2 : i < s.m + s.d
      · have hread := readU64_digitsOf (i - s.m) ((is'.map (detsToken s)).flatten ++ NL :: rest) (by omega) htail
        obtain ⟨d, ds, hdd, hdlt⟩ := digitsOf_cons (i - s.m)
        have hdig : isDigit (d + 48) = true := by simp [isDigit]; omega
        have htok : detsToken s i = [SP, 68] ++ digitsOf (i - s.m) := by simp [detsToken, h1, h2]
        rw [htok]
        simp only [List.cons_append, List.nil_append, List.append_assoc]
        rw [hdd] at hread ⊢
        simp only [List.cons_append] at hread ⊢
        simp only [NL] at hread
        have hge : ¬ (i - s.m ≥ s.d) := by omega
        have hback : s.m + (i - s.m) = i := by omega
        unfold decDetsBody
        simp [SP, CR, NL, hdig, hread, hge, hback]
        simpa [NL] using ih
      · have hread := readU64_digitsOf (i - s.m - s.d) ((is'.map (detsToken s)).flatten ++ NL :: rest) (by omega) htail
        obtain ⟨d, ds, hdd, hdlt⟩ := digitsOf_cons (i - s.m - s.d)
        have hdig : isDigit (d + 48) = true := by simp [isDigit]; omega
        have htok : detsToken s i = [SP, 76] ++ digitsOf (i - s.m - s.d) := by simp [detsToken, h1, h2]
        rw [htok]
        simp only [List.cons_append, List.nil_append, List.append_assoc]
        rw [hdd] at hread ⊢
        simp only [List.cons_append] at hread ⊢
        simp only [NL] at hread
        have hge : ¬ (i - s.m - s.d ≥ s.l) := by omega
        have hback : s.m + s.d + (i - s.m - s.d) = i := by omega
        unfold decDetsBody
        simp [SP, CR, NL, hdig, hread, hge, hback]
        simpa [NL] using ih

theorem bitsOfHits_hitIndices (bits : List Bool) : bitsOfHits bits.length (hitIndices bits) = bits := by
  apply List.ext_getElem
  · simp [bitsOfHits]
  · intro i h1 h2
    simp only [bitsOfHits, List.getElem_map, List.getElem_range]
    have hc := hitsFrom_count bits 0 i
    simp only [Nat.zero_le, true_and, Nat.sub_zero] at hc
    have hg : bits.getD i false = bits[i] := by simp [List.getD, h2]
    rw [hg] at hc
    rw [hitIndices_eq]
    cases hb : bits[i] with
    | false =>
      rw [hb] at hc
      simp only [Bool.false_eq_true, if_false, List.length_eq_zero_iff] at hc
      have : ¬ i ∈ hitsFrom 0 bits := by
        intro hmem
        have : i ∈ (hitsFrom 0 bits).filter (· == i) := List.mem_filter.mpr ⟨hmem, by simp⟩
        rw [hc] at this; cases this
      simpa using this
    | true =>
      rw [hb] at hc
      simp only [if_true] at hc
      have : i ∈ hitsFrom 0 bits := by
        cases hf : (hitsFrom 0 bits).filter (· == i) with
        | nil => rw [hf] at hc; simp at hc
        | cons x xs =>
          have hx : x ∈ (hitsFrom 0 bits).filter (· == i) := by rw [hf]; exact List.mem_cons_self ..
          have := List.mem_filter.mp hx
          have hxi : x = i := by simpa using this.2
          rw [← hxi]; exact this.1
      simpa using this

/-- **dets: decoding what the encoder wrote returns exactly the bits and the bytes that followed.** -/
theorem rt_dets (s : Split) (bits : List Bool) (rest : List Nat) (hlen : bits.length = s.n) (hn : s.n ≤ 2^64) :
    decDets s (encDets s bits ++ rest) = .ok bits rest := by
  unfold decDets encDets
  have hlt : ∀ i ∈ hitIndices bits, i < s.n := by
    intro i hi
    have := hitsFrom_lt bits 0 i (by rw [← hitIndices_eq]; exact hi)
    rw [← hlen]; simpa using this
  simp only [SHOT, List.cons_append, List.nil_append, List.append_assoc, skipWs, isWs, SP, NL, CR]
  simp only [show ((115 : Nat) == 32 || 115 == 10 || 115 == 13 || 115 == 9) = false by decide, Bool.false_eq_true, if_false]
  have hgo := decDetsBody_enc s hn (hitIndices bits) [] rest
    (((detsTokens s bits).flatten ++ ([NL] ++ rest)).length + 1) (by
      have : (hitIndices bits).length ≤ ((hitIndices bits).map (detsToken s)).flatten.length := by
        induction (hitIndices bits) with
        | nil => simp
        | cons x xs ih =>
          simp only [List.map_cons, List.flatten_cons, List.length_append, List.length_cons]
          have : 1 ≤ (detsToken s x).length := by
            unfold detsToken; split <;> (try split) <;> simp
          omega
      rw [detsTokens_eq]
      simp only [List.length_append]
      omega) hlt
  rw [detsTokens_eq]
  have happ : ((hitIndices bits).map (detsToken s)).flatten ++ ([NL] ++ rest)
      = ((hitIndices bits).map (detsToken s)).flatten ++ NL :: rest := by simp
  rw [detsTokens_eq, happ] at hgo
  simp only [NL] at hgo
  rw [hgo]
  simp only [List.nil_append]
  rw [← hlen, bitsOfHits_hitIndices]

end Stim.C09

/-! ### ptb64: one group of 64 shots -/
namespace Stim.C09
open Stim Stim.Fmt

theorem bitsN_getD : ∀ (k v r : Nat), r < k → (bitsN k v).getD r false = (v / 2^r % 2 == 1)
  | 0, _, _, h => by omega
  | k+1, v, 0, _ => by simp [bitsN]
  | k+1, v, r+1, h => by
    have := bitsN_getD k (v / 2) r (by omega)
    simp only [bitsN, List.getD_cons_succ, this]
    rw [Nat.pow_succ, Nat.div_div_eq_div_mul, Nat.mul_comm]

theorem byte_bit (c : List Bool) (r : Nat) (hc : c.length ≤ 8) (hr : r < 8) :
    (byteOfBits c / 2^r % 2 == 1) = c.getD r false := by
  have h1 := bitsN_byteOfBits 8 c hc
  have h2 := bitsN_getD 8 (byteOfBits c) r hr
  rw [h1] at h2
  rw [← h2]
  by_cases hlt : r < c.length
  · simp [List.getD, List.getElem?_append_left hlt]
  · have hge : c.length ≤ r := by omega
    simp only [List.getD]
    rw [List.getElem?_append_right hge, List.getElem?_eq_none hge]
    simp only [List.getElem?_replicate, Option.getD_none]
    split <;> rfl

theorem flatMap8_getD (f : Nat → List Nat) (hf : ∀ i, (f i).length = 8) :
    ∀ (l : List Nat) (k j : Nat), k < l.length → j < 8 →
      (l.flatMap f).getD (k * 8 + j) 0 = (f (l.getD k 0)).getD j 0
  | [], k, _, h, _ => by simp at h
  | x :: xs, 0, j, _, hj => by
    simp only [List.flatMap_cons, Nat.zero_mul, Nat.zero_add, List.getD_cons_zero, List.getD]
    rw [List.getElem?_append_left (by rw [hf]; exact hj)]
    simp
  | x :: xs, k+1, j, h, hj => by
    have ih := flatMap8_getD f hf xs k j (by simpa using h) hj
    simp only [List.flatMap_cons, List.getD_cons_succ]
    simp only [List.getD] at ih ⊢
    rw [List.getElem?_append_right (by rw [hf]; omega)]
    have : (k + 1) * 8 + j - (f x).length = k * 8 + j := by rw [hf]; omega
    rw [this]; exact ih

theorem u64Bytes_length (b : List Bool) : (u64Bytes b).length = 8 := by simp [u64Bytes]

theorem encPtb64Group_length (n : Nat) (group : List (List Bool)) : (encPtb64Group n group).length = n * 8 := by
  unfold encPtb64Group
  induction n with
  | zero => simp
  | succ k ih =>
    rw [List.range_succ, List.flatMap_append, List.length_append, ih]
    simp [u64Bytes_length]; omega

/-- **ptb64: a group of 64 shots decodes to exactly the shots that were encoded**, for every record length `n > 0`. -/
theorem rt_ptb64_group (n : Nat) (group : List (List Bool)) (rest : List Nat) (hn : 0 < n)
    (h64 : group.length = 64) (hlen : ∀ s ∈ group, s.length = n) :
    decPtb64Group n (encPtb64Group n group ++ rest) = .ok group rest := by
  have hL := encPtb64Group_length n group
  unfold decPtb64Group
  have hne : ¬ ((encPtb64Group n group ++ rest).isEmpty || n * 8 == 0) = true := by
    simp only [Bool.or_eq_true, List.isEmpty_iff, beq_iff_eq, not_or]
    constructor
    · intro h
      have := congrArg List.length h
      simp [hL] at this; omega
    · omega
  simp only [hne, Bool.false_eq_true, if_false]
  have hnl : ¬ ((encPtb64Group n group ++ rest).length < n * 8) := by simp [hL]
  simp only [hnl, Bool.false_eq_true, if_false]
  have htake : (encPtb64Group n group ++ rest).take (n * 8) = encPtb64Group n group := by
    rw [← hL]; simp
  have hdrop : (encPtb64Group n group ++ rest).drop (n * 8) = rest := by
    rw [← hL]; simp
  rw [htake, hdrop]
  congr 1
  apply List.ext_getElem
  · simp [h64]
  · intro shot h1 h2
    simp only [List.getElem_map, List.getElem_range]
    have hs : shot < 64 := by simpa using h1
    have hsl : (group[shot]).length = n := hlen _ (List.getElem_mem h2)
    apply List.ext_getElem
    · simp [hsl]
    · intro bit hb1 hb2
      simp only [List.getElem_map, List.getElem_range]
      have hbit : bit < n := by simpa using hb1
      -- the byte holding this bit
      have hj : shot / 8 < 8 := by omega
      have hbyte := flatMap8_getD (fun b => u64Bytes (group.map fun s => s.getD b false)) (fun _ => u64Bytes_length _)
        (List.range n) bit (shot / 8) (by simpa using hbit) hj
      have hr : (List.range n).getD bit 0 = bit := by simp [List.getD, hbit]
      rw [hr] at hbyte
      unfold encPtb64Group
      rw [hbyte]
      simp only [u64Bytes, List.getD]
      rw [List.getElem?_map, List.getElem?_range hj]
      simp only [Option.map_some, Option.getD_some]
      rw [byte_bit _ (shot % 8) (by simp; omega) (by omega)]
      -- pick the bit out of the column
      simp only [List.getD, List.getElem?_take, List.getElem?_drop]
      have hmod : shot % 8 < 8 := by omega
      simp only [hmod, if_true]
      have hidx : 8 * (shot / 8) + shot % 8 = shot := by omega
      rw [hidx, List.getElem?_map, List.getElem?_eq_getElem h2]
      simp [List.getD, hsl, hbit, hb2]

end Stim.C09
