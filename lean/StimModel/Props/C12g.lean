import StimModel.Props.C12f
/-!
# C12 / C11 (continued): the inverse circuit undoes the circuit

`COp.inv` replaces each operation's gate by the gate the regenerated table records as its inverse and keeps the targets
(what `Circuit::inverse` does for unitary instructions, which also reverses the order).  `circuit_undo`: **for every finite
circuit of one- and two-qubit table unitaries on distinct in-range targets, propagating a reduced signed Pauli string through
the circuit and then through the reversed circuit of inverses returns the string**, phases included.
-/
namespace Stim.C12
open Stim

theorem Undo2.swap {a b : Act2} (h : Undo2 a b) : Undo2 a.swap b.swap := by
  intro p q
  obtain ⟨h1, h2, h3⟩ := h q p
  exact ⟨h1, h3, h2⟩

def COp.inv : COp → Option COp
  | .one g q => (inverseRow g).map fun h => .one h q
  | .two g a b => (inverseRow g).map fun h => .two h a b

/-- validity for the inverse theorem: unitary table gate, distinct in-range targets -/
def COp.okU (n : Nat) : COp → Prop
  | .one g _ => g ∈ oneQubitUnitaries
  | .two g a b => g ∈ twoQubitUnitaries ∧ a ≠ b ∧ a < n ∧ b < n

theorem inverseRow_some1 (g : GateRow) (hg : g ∈ oneQubitUnitaries) :
    ∃ h, inverseRow g = some h ∧ Undo1 (act1 g) (act1 h) := by
  have hall := table_inverse1
  rw [List.all_eq_true] at hall
  have := hall g hg
  cases hh : inverseRow g with
  | none => rw [hh] at this; simp at this
  | some h =>
    rw [hh] at this
    simp only [Bool.and_eq_true] at this
    exact ⟨h, rfl, undo1Check_sound _ _ this.2⟩

theorem inverseRow_some2 (g : GateRow) (hg : g ∈ twoQubitUnitaries) :
    ∃ h, inverseRow g = some h ∧ Undo2 (act2 g) (act2 h) := by
  have hall := table_inverse2
  rw [List.all_eq_true] at hall
  have := hall g hg
  cases hh : inverseRow g with
  | none => rw [hh] at this; simp at this
  | some h =>
    rw [hh] at this
    simp only [Bool.and_eq_true] at this
    exact ⟨h, rfl, undo2Check_sound _ _ this.2⟩

theorem COp.apply_ph_lt (s : PS) (op : COp) : (op.apply s).ph < 4 := by
  cases op with
  | one g q => exact conj1_ph_lt _ _ _
  | two g a b =>
    simp only [COp.apply]
    split <;> (simp only [conj2]; exact Nat.mod_lt _ (by decide))

/-- every valid operation has an inverse operation, and it undoes it -/
theorem COp.inv_undoes (op : COp) (s : PS) (hok : op.okU s.ps.length) (hph : s.ph < 4) :
    ∃ op', op.inv = some op' ∧ op'.apply (op.apply s) = s := by
  cases op with
  | one g q =>
    obtain ⟨h, hh, hu⟩ := inverseRow_some1 g hok
    exact ⟨.one h q, by simp [COp.inv, hh], conj1_undo _ _ hu q s hph⟩
  | two g a b =>
    obtain ⟨hg, hne, ha, hb⟩ := hok
    obtain ⟨h, hh, hu⟩ := inverseRow_some2 g hg
    refine ⟨.two h a b, by simp [COp.inv, hh], ?_⟩
    simp only [COp.apply]
    split
    · exact conj2_undo _ _ hu a b s hne ha hb hph
    · exact conj2_undo _ _ hu.swap b a s (by omega) hb ha hph

/-- the inverse circuit: inverses of the operations, in reverse order (`none` if some gate has no recorded inverse) -/
def invCircuit (ops : List COp) : Option (List COp) := (ops.reverse.mapM COp.inv)

/-- **the reversed circuit of table inverses undoes the circuit on every reduced signed Pauli string** -/
theorem circuit_undo : ∀ (ops : List COp) (s : PS), s.ph < 4 → (∀ op ∈ ops, op.okU s.ps.length) →
    ∃ inv, invCircuit ops = some inv ∧ inv.foldl COp.apply (ops.foldl COp.apply s) = s
  | [], s, _, _ => ⟨[], rfl, rfl⟩
  | op :: ops, s, hph, hok => by
    obtain ⟨op', hinv, hundo⟩ := COp.inv_undoes op s (hok op (by simp)) hph
    obtain ⟨inv, hi, hu⟩ := circuit_undo ops (op.apply s) (COp.apply_ph_lt s op)
      (fun o ho => by rw [COp.apply_length]; exact hok o (by simp [ho]))
    refine ⟨inv ++ [op'], ?_, ?_⟩
    · unfold invCircuit at hi ⊢
      rw [List.reverse_cons, List.mapM_append]
      simp [hi, hinv]
    · rw [List.foldl_cons, List.foldl_append, hu]
      simpa using hundo

def COp.show : COp → String × Nat × Nat
  | .one g q => (g.name, q, q)
  | .two g a b => (g.name, a, b)

example : (invCircuit [.one Gen.g_S 0, .two Gen.g_CXSWAP 2 1]).map (·.map COp.show)
    = some [("SWAPCX", 2, 1), ("S_DAG", 0, 0)] := by decide

end Stim.C12
