import StimModel.Props.GF2
/-!
# GF(2) elimination: completeness

`GF2.gfMember_sound` says an accepted vector is a XOR of the given vectors.  Here the converse: **every XOR of the given vectors is
accepted** (`gfMember_complete`), so `gfMember (gfSpan vs) v` decides membership in the span exactly.
-/
namespace Stim.GF2
open Stim

theorem xv_getD : ∀ (a b : List Bool) (i : Nat), a.length = b.length →
    (xv a b).getD i false = (a.getD i false != b.getD i false)
  | [], [], i, _ => by simp [xv]
  | [], _ :: _, _, h => by simp at h
  | _ :: _, [], _, h => by simp at h
  | x :: xs, y :: ys, 0, _ => by simp [xv]
  | x :: xs, y :: ys, i+1, h => by
    have := xv_getD xs ys i (by simpa using h)
    simpa [xv] using this

theorem xv_zero_left (a : List Bool) : xv (List.replicate a.length false) a = a := by
  rw [xv_comm]; exact xv_zero_right a

theorem xv_self (a : List Bool) : xv a a = List.replicate a.length false := by
  induction a with
  | nil => rfl
  | cons x xs ih => simp only [xv, List.zipWith_cons_cons, List.length_cons, List.replicate_succ] at ih ⊢; rw [ih]; cases x <;> rfl

/-- linear combination of basis vectors with coefficient list `c` (missing coefficients count as 0) -/
def comb (n : Nat) : List (List Bool × Nat) → List Bool → List Bool
  | [], _ => List.replicate n false
  | _ :: bs, [] => comb n bs []
  | (b, _) :: bs, c :: cs => if c then xv b (comb n bs cs) else comb n bs cs

/-- echelon invariant: every vector has length `n`, is 1 at its own pivot, and all *later* vectors are 0 at that pivot -/
def Ech (n : Nat) : List (List Bool × Nat) → Prop
  | [] => True
  | (b, p) :: rest => b.length = n ∧ b.getD p false = true ∧ (∀ bp ∈ rest, bp.1.getD p false = false) ∧ Ech n rest

theorem Ech_len {n : Nat} : ∀ {basis : List (List Bool × Nat)}, Ech n basis → ∀ bp ∈ basis, bp.1.length = n
  | [], _, _, h => by cases h
  | (b, p) :: rest, he, bp, h => by
    rcases List.mem_cons.mp h with rfl | h'
    · exact he.1
    · exact Ech_len he.2.2.2 bp h'

theorem comb_length {n : Nat} : ∀ (basis : List (List Bool × Nat)) (c : List Bool), (∀ bp ∈ basis, bp.1.length = n) →
    (comb n basis c).length = n
  | [], _, _ => by simp [comb]
  | _ :: bs, [], h => by
    simp only [comb]; exact comb_length bs [] (fun x hx => h x (List.mem_cons_of_mem _ hx))
  | (b, p) :: bs, c :: cs, h => by
    have ih := comb_length bs cs (fun x hx => h x (List.mem_cons_of_mem _ hx))
    simp only [comb]
    split
    · rw [xv_length _ _ (by rw [h (b, p) (List.mem_cons_self ..), ih])]; exact h (b, p) (List.mem_cons_self ..)
    · exact ih

/-- a combination of vectors that are all 0 at position `p` is 0 at `p` -/
theorem comb_zero_at {n : Nat} (p : Nat) : ∀ (basis : List (List Bool × Nat)) (c : List Bool),
    (∀ bp ∈ basis, bp.1.length = n) → (∀ bp ∈ basis, bp.1.getD p false = false) → (comb n basis c).getD p false = false
  | [], _, _, _ => by
    simp only [comb, List.getD, List.getElem?_replicate]
    split <;> rfl
  | _ :: bs, [], hl, h => by
    simp only [comb]
    exact comb_zero_at p bs [] (fun x hx => hl x (List.mem_cons_of_mem _ hx)) (fun x hx => h x (List.mem_cons_of_mem _ hx))
  | (b, q) :: bs, c :: cs, hl, h => by
    have ih := comb_zero_at p bs cs (fun x hx => hl x (List.mem_cons_of_mem _ hx)) (fun x hx => h x (List.mem_cons_of_mem _ hx))
    simp only [comb]
    split
    · have hlen : b.length = (comb n bs cs).length := by
        rw [hl (b, q) (List.mem_cons_self ..), comb_length bs cs (fun x hx => hl x (List.mem_cons_of_mem _ hx))]
      rw [xv_getD _ _ _ hlen, h (b, q) (List.mem_cons_self ..), ih]; rfl
    · exact ih

/-- reducing keeps a position 0 when every basis vector is 0 there -/
theorem reduce_zero_at {n : Nat} (p : Nat) : ∀ (basis : List (List Bool × Nat)) (v : List Bool),
    (∀ bp ∈ basis, bp.1.length = n) → v.length = n → (∀ bp ∈ basis, bp.1.getD p false = false) → v.getD p false = false →
    (gfReduce basis v).getD p false = false
  | [], v, _, _, _, hv => by simpa [gfReduce] using hv
  | (b, q) :: rest, v, hl, hvl, h, hv => by
    simp only [gfReduce, List.foldl_cons]
    have hb := hl (b, q) (List.mem_cons_self ..)
    have hrest := fun x hx => hl x (List.mem_cons_of_mem (b, q) hx)
    have hzr := fun x hx => h x (List.mem_cons_of_mem (b, q) hx)
    split
    · have hlen : v.length = b.length := by rw [hvl, hb]
      have h1 : (List.zipWith (· != ·) v b).getD p false = false := by
        have := xv_getD v b p hlen
        simp only [xv] at this
        rw [this, hv, h (b, q) (List.mem_cons_self ..)]; rfl
      have h2 : (List.zipWith (· != ·) v b).length = n := by
        have := xv_length v b hlen; simp only [xv] at this; rw [this, hvl]
      exact reduce_zero_at p rest _ hrest h2 hzr h1
    · exact reduce_zero_at p rest v hrest hvl hzr hv

/-- after reduction by an echelon basis every pivot position is 0 -/
theorem reduce_pivots_zero {n : Nat} : ∀ (basis : List (List Bool × Nat)) (v : List Bool), Ech n basis → v.length = n →
    ∀ bp ∈ basis, (gfReduce basis v).getD bp.2 false = false
  | [], _, _, _, bp, h => by cases h
  | (b, p) :: rest, v, he, hvl, bp, hmem => by
    obtain ⟨hb, hbp, hlater, herest⟩ := he
    have hlrest := Ech_len herest
    simp only [gfReduce, List.foldl_cons]
    -- the vector after the first step
    have hlen : v.length = b.length := by rw [hvl, hb]
    have hstep : ∃ v', v'.length = n ∧ v'.getD p false = false ∧
        (if v.getD p false = true then List.zipWith (· != ·) v b else v) = v' := by
      by_cases hvp : v.getD p false = true
      · refine ⟨List.zipWith (· != ·) v b, ?_, ?_, by rw [if_pos hvp]⟩
        · have := xv_length v b hlen; simp only [xv] at this; rw [this, hvl]
        · have := xv_getD v b p hlen
          simp only [xv] at this
          rw [this, hvp, hbp]; rfl
      · have hvp' : v.getD p false = false := by simpa using hvp
        exact ⟨v, hvl, hvp', by rw [if_neg hvp]⟩
    obtain ⟨v', hv'l, hv'p, heq⟩ := hstep
    rw [heq]
    rcases List.mem_cons.mp hmem with rfl | hin
    · exact reduce_zero_at p rest v' hlrest hv'l hlater hv'p
    · have := reduce_pivots_zero rest v' herest hv'l bp hin
      simpa [gfReduce] using this

end Stim.GF2

namespace Stim.GF2
open Stim

theorem comb_nil (n : Nat) : ∀ (basis : List (List Bool × Nat)), comb n basis [] = List.replicate n false
  | [] => rfl
  | _ :: bs => by simp only [comb]; exact comb_nil n bs

/-- padded XOR of coefficient lists -/
def xorC : List Bool → List Bool → List Bool
  | [], b => b
  | a, [] => a
  | x :: xs, y :: ys => (x != y) :: xorC xs ys

theorem xorC_nil_right (a : List Bool) : xorC a [] = a := by cases a <;> rfl

theorem xv_zero_right_n (n : Nat) (a : List Bool) (h : a.length = n) : xv a (List.replicate n false) = a := by
  rw [← h]; exact xv_zero_right a

theorem xv_zero_left_n (n : Nat) (a : List Bool) (h : a.length = n) : xv (List.replicate n false) a = a := by
  rw [← h]; exact xv_zero_left a

/-- combinations add: coefficients XOR -/
theorem comb_xor {n : Nat} : ∀ (basis : List (List Bool × Nat)) (c1 c2 : List Bool), (∀ bp ∈ basis, bp.1.length = n) →
    xv (comb n basis c1) (comb n basis c2) = comb n basis (xorC c1 c2)
  | [], c1, c2, _ => by
    simp only [comb]
    have := xv_self (List.replicate n false)
    simpa using this
  | (b, p) :: bs, [], c2, h => by
    have hl := comb_length ((b, p) :: bs) c2 h
    simp only [xorC]
    rw [comb_nil, xv_zero_left_n n _ hl]
  | (b, p) :: bs, c :: cs, [], h => by
    have hl := comb_length ((b, p) :: bs) (c :: cs) h
    rw [xorC_nil_right, comb_nil, xv_zero_right_n n _ hl]
  | (b, p) :: bs, x :: xs, y :: ys, h => by
    have hrest := fun z hz => h z (List.mem_cons_of_mem (b, p) hz)
    have ih := comb_xor bs xs ys hrest
    have hb := h (b, p) (List.mem_cons_self ..)
    have hlx := comb_length bs xs hrest
    have hly := comb_length bs ys hrest
    simp only [comb, xorC]
    cases x <;> cases y
    · simpa using ih
    · simp only [Bool.false_eq_true, if_false, if_true, show (false != true) = true by rfl]
      rw [xv_comm, xv_assoc, xv_comm (comb n bs ys), ih]
    · simp only [Bool.false_eq_true, if_false, if_true, show (true != false) = true by rfl]
      rw [xv_assoc, ih]
    · simp only [if_true, show (true != true) = false by rfl, Bool.false_eq_true, if_false]
      -- (b ⊕ A) ⊕ (b ⊕ B) = A ⊕ B
      have hlen1 : b.length = (comb n bs xs).length := by rw [hb, hlx]
      rw [xv_assoc, ← xv_assoc (comb n bs xs) b, xv_comm (comb n bs xs) b, xv_assoc b, ← xv_assoc b b, xv_self, hb,
        xv_zero_left_n n _ (by rw [xv_length _ _ (by rw [hlx, hly]), hlx])]
      exact ih

/-- a combination that vanishes at every pivot of an echelon basis is the zero vector -/
theorem comb_zero_of_pivots {n : Nat} : ∀ (basis : List (List Bool × Nat)) (c : List Bool), Ech n basis →
    (∀ bp ∈ basis, (comb n basis c).getD bp.2 false = false) → comb n basis c = List.replicate n false
  | [], _, _, _ => rfl
  | (b, p) :: rest, [], _, _ => comb_nil n _
  | (b, p) :: rest, c0 :: cs, he, hz => by
    obtain ⟨hb, hbp, hlater, herest⟩ := he
    have hlrest := Ech_len herest
    have hp := hz (b, p) (List.mem_cons_self ..)
    have hcz := comb_zero_at (n := n) p rest cs hlrest hlater
    simp only [comb] at hp hz ⊢
    cases c0
    · simp only [Bool.false_eq_true, if_false] at hp hz ⊢
      exact comb_zero_of_pivots rest cs herest (fun bp hbp' => hz bp (List.mem_cons_of_mem _ hbp'))
    · simp only [if_true] at hp
      have hlen : b.length = (comb n rest cs).length := by rw [hb, comb_length rest cs hlrest]
      rw [xv_getD _ _ _ hlen, hbp, hcz] at hp
      cases hp

/-- reduction subtracts a combination of the basis -/
theorem reduce_comb {n : Nat} : ∀ (basis : List (List Bool × Nat)) (v : List Bool), (∀ bp ∈ basis, bp.1.length = n) → v.length = n →
    ∃ c, gfReduce basis v = xv v (comb n basis c)
  | [], v, _, hv => ⟨[], by simp [gfReduce, comb, xv_zero_right_n n v hv]⟩
  | (b, p) :: rest, v, hl, hv => by
    have hb := hl (b, p) (List.mem_cons_self ..)
    have hrest := fun z hz => hl z (List.mem_cons_of_mem (b, p) hz)
    simp only [gfReduce, List.foldl_cons]
    by_cases hvp : v.getD p false = true
    · rw [if_pos hvp]
      have hlen' : (List.zipWith (· != ·) v b).length = n := by
        have := xv_length v b (by rw [hv, hb]); simp only [xv] at this; rw [this, hv]
      obtain ⟨c, hc⟩ := reduce_comb rest (List.zipWith (· != ·) v b) hrest hlen'
      refine ⟨true :: c, ?_⟩
      simp only [gfReduce] at hc
      rw [hc]
      simp only [comb, if_true]
      exact xv_assoc v b _
    · rw [if_neg hvp]
      obtain ⟨c, hc⟩ := reduce_comb rest v hrest hv
      refine ⟨false :: c, ?_⟩
      simp only [gfReduce] at hc
      rw [hc]
      simp [comb]

theorem allFalse_replicate (n : Nat) : (List.replicate n false).all (! ·) = true := by
  induction n with
  | zero => rfl
  | succ k ih => simp [List.replicate_succ, ih]

/-- **Completeness for an echelon basis**: every combination of the basis is accepted. -/
theorem member_of_comb {n : Nat} (basis : List (List Bool × Nat)) (he : Ech n basis) (c : List Bool) :
    gfMember basis (comb n basis c) = true := by
  have hl := Ech_len he
  have hvl := comb_length basis c hl
  obtain ⟨c', hc'⟩ := reduce_comb basis (comb n basis c) hl hvl
  have hpz := reduce_pivots_zero basis (comb n basis c) he hvl
  rw [hc', comb_xor basis c c' hl] at hpz
  have hzero := comb_zero_of_pivots basis (xorC c c') he hpz
  unfold gfMember
  rw [hc', comb_xor basis c c' hl, hzero]
  exact allFalse_replicate n

end Stim.GF2

namespace Stim.GF2
open Stim

theorem firstTrue_spec : ∀ (r : List Bool) (i p : Nat), firstTrue r i = some p → i ≤ p ∧ r.getD (p - i) false = true
  | [], _, _, h => by simp [firstTrue] at h
  | b :: bs, i, p, h => by
    simp only [firstTrue] at h
    by_cases hb : b = true
    · subst hb
      simp only [if_true, Option.some.injEq] at h
      subst h
      simp
    · have hb' : b = false := by simpa using hb
      subst hb'
      simp only [Bool.false_eq_true, if_false] at h
      obtain ⟨hle, hget⟩ := firstTrue_spec bs (i + 1) p h
      refine ⟨by omega, ?_⟩
      have : p - i = (p - (i + 1)) + 1 := by omega
      rw [this]; simpa using hget

theorem firstTrue_none : ∀ (r : List Bool) (i : Nat), firstTrue r i = none → r.all (! ·) = true
  | [], _, _ => rfl
  | b :: bs, i, h => by
    simp only [firstTrue] at h
    by_cases hb : b = true
    · subst hb; simp at h
    · have hb' : b = false := by simpa using hb
      subst hb'
      simp only [Bool.false_eq_true, if_false] at h
      simp [firstTrue_none bs (i + 1) h]

/-- appending a vector that is 1 at its pivot and 0 at all existing pivots keeps the echelon invariant -/
theorem Ech_append {n : Nat} (r : List Bool) (p : Nat) (hr : r.length = n) (hrp : r.getD p false = true) :
    ∀ (basis : List (List Bool × Nat)), Ech n basis → (∀ bp ∈ basis, r.getD bp.2 false = false) → Ech n (basis ++ [(r, p)])
  | [], _, _ => by
    simp only [List.nil_append, Ech]
    exact ⟨hr, hrp, by simp, trivial⟩
  | (b, q) :: rest, he, hz => by
    obtain ⟨hb, hbq, hlater, herest⟩ := he
    simp only [List.cons_append, Ech]
    refine ⟨hb, hbq, ?_, Ech_append r p hr hrp rest herest (fun bp h => hz bp (List.mem_cons_of_mem _ h))⟩
    intro bp hbp
    rcases List.mem_append.mp hbp with h | h
    · exact hlater bp h
    · simp only [List.mem_singleton] at h
      subst h
      exact hz (b, q) (List.mem_cons_self ..)

/-- coefficients beyond the basis are ignored -/
theorem comb_append_short {n : Nat} (x : List Bool × Nat) : ∀ (basis : List (List Bool × Nat)) (c : List Bool),
    c.length ≤ basis.length → comb n (basis ++ [x]) c = comb n basis c
  | [], [], _ => by simp [comb]
  | [], _ :: _, h => by simp at h
  | (b, p) :: bs, [], _ => by rw [comb_nil, comb_nil]
  | (b, p) :: bs, c :: cs, h => by
    have ih := comb_append_short (n := n) x bs cs (by simpa using h)
    simp only [List.cons_append, comb, ih]

theorem comb_take {n : Nat} : ∀ (basis : List (List Bool × Nat)) (c : List Bool), comb n basis (c.take basis.length) = comb n basis c
  | [], c => by simp [comb]
  | (b, p) :: bs, [] => by simp
  | (b, p) :: bs, c :: cs => by
    simp only [List.length_cons, List.take_succ_cons, comb, comb_take bs cs]

/-- the new vector with coefficient pattern (0,…,0,1) -/
theorem comb_last {n : Nat} (r : List Bool) (p : Nat) (hr : r.length = n) : ∀ (basis : List (List Bool × Nat)),
    comb n (basis ++ [(r, p)]) (List.replicate basis.length false ++ [true]) = r
  | [] => by
    simp only [List.nil_append, List.length_nil, List.replicate_zero, comb, if_true]
    exact xv_zero_right_n n r hr
  | (b, q) :: bs => by
    simp only [List.cons_append, List.length_cons, List.replicate_succ, comb, Bool.false_eq_true, if_false]
    exact comb_last r p hr bs

def InComb (n : Nat) (basis : List (List Bool × Nat)) (w : List Bool) : Prop := ∃ c, w = comb n basis c

theorem InComb_mono {n : Nat} (basis : List (List Bool × Nat)) (x : List Bool × Nat) (w : List Bool)
    (h : InComb n basis w) : InComb n (basis ++ [x]) w := by
  obtain ⟨c, rfl⟩ := h
  refine ⟨c.take basis.length, ?_⟩
  rw [comb_append_short x basis _ (by simp [List.length_take]; omega), comb_take]

/-- one insertion step keeps: echelon form, and every vector seen so far is a combination of the basis -/
theorem insert_step {n : Nat} (basis : List (List Bool × Nat)) (he : Ech n basis) (v : List Bool) (hv : v.length = n) :
    Ech n (gfInsert basis v) ∧ InComb n (gfInsert basis v) v ∧ (∀ w, InComb n basis w → InComb n (gfInsert basis v) w) := by
  have hl := Ech_len he
  obtain ⟨c, hc⟩ := reduce_comb basis v hl hv
  have hrlen : (gfReduce basis v).length = n := by
    rw [hc, xv_length _ _ (by rw [hv, comb_length basis c hl]), hv]
  unfold gfInsert
  simp only
  cases hft : firstTrue (gfReduce basis v) 0 with
  | none =>
    -- v reduces to zero: v is the combination c
    have hz := firstTrue_none _ 0 hft
    have hveq : v = comb n basis c := by
      rw [hc] at hz
      exact all_false_eq v (comb n basis c) (by rw [hv, comb_length basis c hl]) hz
    exact ⟨he, ⟨c, hveq⟩, fun w hw => hw⟩
  | some p =>
    obtain ⟨_, hrp⟩ := firstTrue_spec _ 0 p hft
    simp only [Nat.sub_zero] at hrp
    have hpz := reduce_pivots_zero basis v he hv
    refine ⟨Ech_append _ p hrlen hrp basis he hpz, ?_, fun w hw => InComb_mono basis _ w hw⟩
    -- v = r ⊕ comb basis c, both combinations of the extended basis
    have hl' : ∀ bp ∈ basis ++ [(gfReduce basis v, p)], bp.1.length = n := by
      intro bp hbp
      rcases List.mem_append.mp hbp with h | h
      · exact hl bp h
      · simp only [List.mem_singleton] at h; subst h; exact hrlen
    have h1 : gfReduce basis v = comb n (basis ++ [(gfReduce basis v, p)]) (List.replicate basis.length false ++ [true]) :=
      (comb_last _ p hrlen basis).symm
    have h2 : comb n basis c = comb n (basis ++ [(gfReduce basis v, p)]) (c.take basis.length) := by
      rw [comb_append_short _ basis _ (by simp [List.length_take]; omega), comb_take]
    have hv' : v = xv (gfReduce basis v) (comb n basis c) := by
      rw [hc, xv_assoc, xv_self, comb_length basis c hl, xv_zero_right_n n v hv]
    refine ⟨xorC (List.replicate basis.length false ++ [true]) (c.take basis.length), ?_⟩
    rw [← comb_xor _ _ _ hl', ← h1, ← h2]
    exact hv'

theorem span_inv {n : Nat} (vs : List (List Bool)) (hlen : ∀ w ∈ vs, w.length = n) :
    ∀ (l : List (List Bool)) (basis : List (List Bool × Nat)), (∀ x ∈ l, x ∈ vs) → Ech n basis →
      Ech n (l.foldl gfInsert basis) ∧ (∀ x ∈ l, InComb n (l.foldl gfInsert basis) x) ∧
      (∀ w, InComb n basis w → InComb n (l.foldl gfInsert basis) w) := by
  intro l
  induction l with
  | nil => intro basis _ he; exact ⟨he, by simp, fun w hw => hw⟩
  | cons x xs ih =>
    intro basis hl he
    have hx := hlen x (hl x (List.mem_cons_self ..))
    obtain ⟨he1, hx1, hmono1⟩ := insert_step basis he x hx
    obtain ⟨he2, hxs2, hmono2⟩ := ih (gfInsert basis x) (fun y hy => hl y (List.mem_cons_of_mem _ hy)) he1
    simp only [List.foldl_cons]
    refine ⟨he2, ?_, fun w hw => hmono2 w (hmono1 w hw)⟩
    intro y hy
    rcases List.mem_cons.mp hy with rfl | hy'
    · exact hmono2 _ hx1
    · exact hxs2 y hy'

/-- **Completeness**: every XOR combination of the given vectors is accepted. -/
theorem gfMember_complete (n : Nat) (vs : List (List Bool)) (hlen : ∀ w ∈ vs, w.length = n) (w : List Bool)
    (h : InSpan n vs w) : gfMember (gfSpan vs) w = true := by
  obtain ⟨he, hall, _⟩ := span_inv vs hlen vs [] (fun x hx => hx) (by simp [Ech])
  have hl := Ech_len he
  have hw : InComb n (gfSpan vs) w := by
    induction h with
    | zero => exact ⟨[], (comb_nil n _).symm⟩
    | add _ hmem ih =>
      obtain ⟨c1, h1⟩ := ih
      obtain ⟨c2, h2⟩ := hall _ hmem
      exact ⟨xorC c1 c2, by rw [h1, h2]; exact comb_xor _ c1 c2 hl⟩
  obtain ⟨c, rfl⟩ := hw
  exact member_of_comb (gfSpan vs) he c

/-- **`gfMember (gfSpan vs)` decides membership in the XOR span exactly.** -/
theorem gfMember_iff (n : Nat) (vs : List (List Bool)) (hlen : ∀ w ∈ vs, w.length = n) (w : List Bool) (hw : w.length = n) :
    gfMember (gfSpan vs) w = true ↔ InSpan n vs w :=
  ⟨gfMember_sound n vs hlen w hw, gfMember_complete n vs hlen w⟩

end Stim.GF2
