import StimModel.Props.C08c
import StimModel.Props.C07f
/-!
# C08 (continued): whole detector-error-model files read back exactly, nested `repeat` blocks included

`WfDems` describes the models this file talks about: trees of `error`, `detector`, `logical_observable`, `shift_detectors`
instructions (any tag; detector / observable ids below 2^60; targets the instruction's validation accepts; for
`shift_detectors` one numeric shift below 2^60) and `repeat` blocks with a count below 2^60, nested to any depth.

Parenthesised arguments are printed with 19 significant digits and read back by the literal reader; that they read back as the
same rational is **not** proved here — it is the explicit hypothesis `ArgsReadBack` on each instruction's argument list (true of
every argument list whose printed form is exact; instances are checked by evaluation at the end of the file, and the
printer/reader pair is compared with the implementation by the `demtext` area).

* `dem_line_round_trip` : one printed instruction line reads back as exactly its kind, tag, arguments, targets and shift;
* `dem_round_trip` : the printed text of a whole model (`linesDems 0`) is read back by `parseDemText` as exactly the same
  tree — no fusion happens in this format — with nothing left over;
* `printDemOps_linesDems` : when no block is empty, that text is the model printer's `printDemOps` output plus the final line feed.
-/
namespace Stim.C08b
open Stim Stim.Text Stim.DemText
open Stim.C07 (skipDead_id parseOpsGo_skip_ws skipDead_ws replicate_space takeWhile_name natDigits_head untilNextArg_space uint_round_trip tag_round_trip)

/-- the printed argument list reads back as itself (explicit hypothesis; see the header) -/
def ArgsReadBack (args : List Rat) : Prop :=
  args = [] ∨ ∀ rest : List Nat,
    parseArgsGo ((printDemArgs args ++ 41 :: rest).length + 1) (printDemArgs args ++ 41 :: rest) = some (args, rest)

def ShapeOk (k : Kind) (ts : List DTarget) (nums : List Nat) : Prop :=
  if k = .shift then ts = [] ∧ ∃ n, nums = [n] ∧ n < 2 ^ 60 else nums = []

mutual
def WfDem : TDem → Prop
  | .instr k _ args ts nums =>
    ArgsReadBack args ∧ (∀ t ∈ ts, IdOk t) ∧ ShapeOk k ts nums ∧ validateDem k args ts nums = true
  | .rep n _ body => n < 2 ^ 60 ∧ WfDems body
def WfDems : List TDem → Prop
  | [] => True
  | o :: os => WfDem o ∧ WfDems os
end

mutual
def lineDem (indent : Nat) : TDem → List Nat
  | .instr k tag args ts nums => printDemInstr k tag args ts nums
  | .rep n tag body =>
    bytesOf "repeat" ++ (printTag tag ++ 32 :: (natDigits n ++ 32 :: 123 :: 10 ::
      (linesDems (indent + 4) body ++ (List.replicate indent 32 ++ [125]))))
def linesDems (indent : Nat) : List TDem → List Nat
  | [] => []
  | o :: os => List.replicate indent 32 ++ (lineDem indent o ++ 10 :: linesDems indent os)
end

mutual
def wDem : TDem → Nat
  | .instr _ _ _ _ _ => 0
  | .rep _ _ body => body.length + wDems body + 1
def wDems : List TDem → Nat
  | [] => 0
  | o :: os => wDem o + wDems os
end

/-! ### names -/

theorem kind_bytes (k : Kind) : ∃ c cs, bytesOf (kindName k) = c :: cs ∧ isSpaceC c = false ∧ (c == 35) = false ∧ c ≠ 125 ∧
    (bytesOf (kindName k)).all isNameC = true ∧ (bytesOf (kindName k)).length ≤ 31 ∧
    lookupName (bytesOf (kindName k)) = some (some k) := by
  cases k
  · exact ⟨101, bytesOf "rror", by decide, by decide, by decide, by decide, by decide, by decide, by decide⟩
  · exact ⟨100, bytesOf "etector", by decide, by decide, by decide, by decide, by decide, by decide, by decide⟩
  · exact ⟨108, bytesOf "ogical_observable", by decide, by decide, by decide, by decide, by decide, by decide, by decide⟩
  · exact ⟨115, bytesOf "hift_detectors", by decide, by decide, by decide, by decide, by decide, by decide, by decide⟩

theorem bytes_repeat_lc : bytesOf "repeat" = [114, 101, 112, 101, 97, 116] := by decide
theorem lookup_repeat_lc : lookupName (bytesOf "repeat") = some none := by decide

/-! ### one instruction line -/

/-- what follows the arguments: the numeric shift, the targets, the line feed -/
def afterArgs (ts : List DTarget) (nums : List Nat) (rest : List Nat) : List Nat :=
  (nums.flatMap fun n => 32 :: natDigits n) ++ (printDTargets ts ++ 10 :: rest)

theorem afterArgs_head (ts : List DTarget) (nums : List Nat) (rest : List Nat) :
    ∃ c cs, afterArgs ts nums rest = c :: cs ∧ (c = 32 ∨ c = 10) := by
  unfold afterArgs
  cases nums with
  | cons n ns => exact ⟨32, _, by simp; rfl, .inl rfl⟩
  | nil =>
    cases ts with
    | cons t ts => exact ⟨32, _, by simp [printDTargets]; rfl, .inl rfl⟩
    | nil => exact ⟨10, rest, by simp [printDTargets], .inr rfl⟩

theorem printDTargets_length (ts : List DTarget) : ts.length ≤ (printDTargets ts).length := by
  induction ts with
  | nil => simp [printDTargets]
  | cons t ts ih =>
    have : printDTargets (t :: ts) = 32 :: (printDTarget t ++ printDTargets ts) := by simp [printDTargets]
    rw [this]
    simp only [List.length_cons, List.length_append]
    omega

/-- the part of `parseDemLine` after the arguments (numeric shift, targets, validation), as a function of its own -/
def lineTail (k : Kind) (tag : List Nat) (args : List Rat) (r : List Nat) :
    PRes (Option Kind × List Nat × List Rat × List DTarget × List Nat) :=
  let numRes : Option (List Nat × List Nat) :=
    if k == .shift then
      match untilNextArg true r with
      | none => none
      | some (true, r1) => (readUInt (2^60) r1).map fun (n, r2) => ([n], r2)
      | some (false, r1) => some ([], r1)
    else some ([], r)
  match numRes with
  | none => .err "bad-shift"
  | some (nums, r) =>
    match parseDTargetsGo (r.length + 2) r with
    | none => .err "bad-target"
    | some (ts, r2) =>
      (match r2 with
       | 123 :: _ => .err "unexpected-brace"
       | _ => if validateDem k args ts nums then .ok (some k, tag, args, ts, nums) r2 else .err "invalid-instruction")

theorem lineTail_ok (k : Kind) (tag : List Nat) (args : List Rat) (ts : List DTarget) (nums : List Nat) (rest : List Nat)
    (hid : ∀ t ∈ ts, IdOk t) (hshape : ShapeOk k ts nums) (hval : validateDem k args ts nums = true) :
    lineTail k tag args (afterArgs ts nums rest) = .ok (some k, tag, args, ts, nums) (10 :: rest) := by
  unfold ShapeOk at hshape
  by_cases hk : k = .shift
  · subst hk
    simp only [if_true] at hshape
    obtain ⟨hts, n, hnums, hn⟩ := hshape
    subst hts; subst hnums
    obtain ⟨c, cs, hd, hstart⟩ := natDigits_head n
    have hA : afterArgs [] [n] rest = 32 :: (natDigits n ++ 10 :: rest) := by simp [afterArgs, printDTargets]
    have h1 : untilNextArg true (32 :: (natDigits n ++ 10 :: rest)) = some (true, natDigits n ++ 10 :: rest) := by
      rw [hd]; exact untilNextArg_space true c _ hstart
    have h2 : readUInt (2 ^ 60) (natDigits n ++ 10 :: rest) = some (n, 10 :: rest) :=
      uint_round_trip (2 ^ 60) n _ hn (by intro c hc; simp at hc; subst hc; decide)
    have h3 : parseDTargetsGo ((10 :: rest).length + 2) (10 :: rest) = some ([], 10 :: rest) := by
      have := targets_round_trip [] (by simp) rest ((10 :: rest).length + 2) (by simp)
      simpa [printDTargets] using this
    rw [hA]
    unfold lineTail
    simp only [beq_self_eq_true, if_true, h1, h2, Option.map_some, h3, hval]
  · simp only [hk, if_false] at hshape
    subst hshape
    have hA : afterArgs ts [] rest = printDTargets ts ++ 10 :: rest := by simp [afterArgs]
    have hne : (k == Kind.shift) = false := by simpa using hk
    have hlen : ts.length < (printDTargets ts ++ 10 :: rest).length + 2 := by
      have := printDTargets_length ts
      simp only [List.length_append, List.length_cons]; omega
    have h3 := targets_round_trip ts hid rest _ hlen
    rw [hA]
    unfold lineTail
    simp only [hne, Bool.false_eq_true, if_false, h3, hval, if_true]

theorem parseDemLine_eq (k : Kind) (tag : List Nat) (args : List Rat) (ts : List DTarget) (nums : List Nat) (rest : List Nat)
    (hargs : ArgsReadBack args) :
    parseDemLine (printDemInstr k tag args ts nums ++ 10 :: rest) = lineTail k tag args (afterArgs ts nums rest) := by
  obtain ⟨c0, cs0, _, _, _, _, hall, hlen, hlook⟩ := kind_bytes k
  obtain ⟨c, cs, hc, hcsep⟩ := afterArgs_head ts nums rest
  -- the text after the name
  let argsText : List Nat := if args.isEmpty then [] else [40] ++ printDemArgs args ++ [41]
  have hline : printDemInstr k tag args ts nums ++ 10 :: rest
      = bytesOf (kindName k) ++ (printTag tag ++ (argsText ++ afterArgs ts nums rest)) := by
    simp [printDemInstr, afterArgs, argsText, printDTargets]
  -- first byte after the tag
  have hargsHead : ∃ d ds, argsText ++ afterArgs ts nums rest = d :: ds ∧ (d = 40 ∨ d = 32 ∨ d = 10) := by
    by_cases ha : args.isEmpty
    · refine ⟨c, cs, by simp [argsText, ha, hc], ?_⟩
      rcases hcsep with h | h
      · exact .inr (.inl h)
      · exact .inr (.inr h)
    · exact ⟨40, printDemArgs args ++ 41 :: afterArgs ts nums rest, by simp [argsText, ha], .inl rfl⟩
  obtain ⟨d, ds, hd, hdsep⟩ := hargsHead
  have hstop : ∀ x, (printTag tag ++ (argsText ++ afterArgs ts nums rest)).head? = some x → isNameC x = false := by
    intro x hx
    unfold printTag at hx
    split at hx
    · rw [hd] at hx
      simp at hx
      subst hx
      rcases hdsep with rfl | rfl | rfl <;> decide
    · simp at hx; subst hx; decide
  have htw := takeWhile_name (bytesOf (kindName k)) _ hall hstop
  have htk : (bytesOf (kindName k)).take 31 = bytesOf (kindName k) := List.take_of_length_le hlen
  have hdr : (bytesOf (kindName k)).drop 31 = [] := List.drop_eq_nil_of_le hlen
  rw [hline]
  unfold parseDemLine lineTail
  simp only [htw, htk, hdr, List.nil_append, hlook]
  by_cases ha : args = []
  · subst ha
    have hat : argsText = [] := by simp [argsText]
    rw [hat, List.nil_append, hc]
    by_cases ht : tag = []
    · subst ht
      rcases hcsep with rfl | rfl <;> (simp [printTag] <;> rfl)
    · have hne : tag.isEmpty = false := by simpa using ht
      have htr := tag_round_trip tag (c :: cs)
      rcases hcsep with rfl | rfl <;> (simp [printTag, hne, htr] <;> rfl)
  · have hne2 : args.isEmpty = false := by simpa using ha
    have hrb : ∀ rest : List Nat,
        parseArgsGo ((printDemArgs args ++ 41 :: rest).length + 1) (printDemArgs args ++ 41 :: rest) = some (args, rest) := by
      rcases hargs with h | h
      · exact absurd h ha
      · exact h
    have hat : argsText ++ afterArgs ts nums rest = 40 :: (printDemArgs args ++ 41 :: afterArgs ts nums rest) := by
      simp [argsText, hne2]
    rw [hat]
    have hrb2 : parseArgsGo ((printDemArgs args).length + ((afterArgs ts nums rest).length + 1) + 1)
        (printDemArgs args ++ 41 :: afterArgs ts nums rest) = some (args, afterArgs ts nums rest) := by
      have := hrb (afterArgs ts nums rest)
      simpa only [List.length_append, List.length_cons] using this
    by_cases ht : tag = []
    · subst ht
      simp [printTag, hrb2] <;> rfl
    · have hne : tag.isEmpty = false := by simpa using ht
      have htr := tag_round_trip tag (40 :: (printDemArgs args ++ 41 :: afterArgs ts nums rest))
      simp [printTag, hne, htr, hrb2] <;> rfl

/-- **One printed instruction line reads back exactly.** -/
theorem dem_line_round_trip (k : Kind) (tag : List Nat) (args : List Rat) (ts : List DTarget) (nums : List Nat)
    (hwf : WfDem (.instr k tag args ts nums)) (rest : List Nat) :
    parseDemLine (printDemInstr k tag args ts nums ++ 10 :: rest) = .ok (some k, tag, args, ts, nums) (10 :: rest) := by
  obtain ⟨hargs, hid, hshape, hval⟩ := hwf
  rw [parseDemLine_eq k tag args ts nums rest hargs, lineTail_ok k tag args ts nums rest hid hshape hval]

/-! ### the `repeat` header -/

theorem repeat_header_lc (tag : List Nat) (n : Nat) (hn : n < 2 ^ 60) (X : List Nat) :
    parseDemLine (bytesOf "repeat" ++ (printTag tag ++ 32 :: (natDigits n ++ 32 :: 123 :: X)))
      = .ok (none, tag, [], [], [n]) (123 :: X) := by
  have hstop : ∀ x, (printTag tag ++ 32 :: (natDigits n ++ 32 :: 123 :: X)).head? = some x → isNameC x = false := by
    intro x hx
    unfold printTag at hx
    split at hx
    · simp at hx; subst hx; decide
    · simp at hx; subst hx; decide
  have hall : (bytesOf "repeat").all isNameC = true := by rw [bytes_repeat_lc]; decide
  have htw := takeWhile_name (bytesOf "repeat") _ hall hstop
  have htk : (bytesOf "repeat").take 31 = bytesOf "repeat" := by rw [bytes_repeat_lc]; rfl
  have hdr : (bytesOf "repeat").drop 31 = [] := by rw [bytes_repeat_lc]; rfl
  obtain ⟨c, cs, hd, hstart⟩ := natDigits_head n
  have h1 : untilNextArg true (32 :: (natDigits n ++ 32 :: 123 :: X)) = some (true, natDigits n ++ 32 :: 123 :: X) := by
    rw [hd]; exact untilNextArg_space true c _ hstart
  have h2 : readUInt (2 ^ 60) (natDigits n ++ 32 :: 123 :: X) = some (n, 32 :: 123 :: X) :=
    uint_round_trip (2 ^ 60) n _ hn (by intro c hc; simp at hc; subst hc; decide)
  have h3 : untilNextArg true (32 :: 123 :: X) = some (false, 123 :: X) := by
    simp [untilNextArg, untilNextArg.skipWs]
  unfold parseDemLine
  simp only [htw, htk, hdr, List.nil_append, lookup_repeat_lc]
  by_cases htag : tag = []
  · subst htag
    simp [printTag, h1, h2, h3]
  · have hne : tag.isEmpty = false := by simpa using htag
    have htr := tag_round_trip tag (32 :: (natDigits n ++ 32 :: 123 :: X))
    simp [printTag, hne, htr, h1, h2, h3]

/-! ### the parser loop -/

theorem parseDemOpsGo_skip_ws (ws b : List Nat) (f : Nat) (inB : Bool) (acc : List TDem) (h : ws.all isSpaceC = true) :
    parseDemOpsGo f inB (ws ++ b) acc = parseDemOpsGo f inB b acc := by
  cases f with
  | zero => simp [parseDemOpsGo]
  | succ f =>
    have hs : skipDead ((ws ++ b).length + 1) (ws ++ b) = skipDead (b.length + 1) b := by
      have := skipDead_ws ws b (b.length + 1) h
      rw [← this]
      congr 1
      simp only [List.length_append]; omega
    unfold parseDemOpsGo
    simp only [hs]

theorem parseDemOpsGo_close (f : Nat) (acc : List TDem) (rest : List Nat) :
    parseDemOpsGo (f + 1) true (125 :: rest) acc = .ok acc.reverse rest := by
  unfold parseDemOpsGo
  simp [skipDead, isSpaceC]

theorem parseDemOpsGo_step_instr (f : Nat) (inB : Bool) (c : Nat) (cs : List Nat) (acc : List TDem)
    (hsp : isSpaceC c = false) (hhash : (c == 35) = false) (hbrace : c ≠ 125)
    (k : Kind) (tag : List Nat) (args : List Rat) (ts : List DTarget) (nums r : List Nat)
    (hp : parseDemLine (c :: cs) = .ok (some k, tag, args, ts, nums) r) :
    parseDemOpsGo (f + 1) inB (c :: cs) acc = parseDemOpsGo f inB (r.drop 1) (.instr k tag args ts nums :: acc) := by
  conv => lhs; unfold parseDemOpsGo
  simp only [List.length_cons, skipDead_id _ c cs hsp hhash]
  split
  · rename_i h; cases h
  · rename_i r' h
    simp only [List.cons.injEq] at h
    exact absurd h.1 hbrace
  · simp only [hp]

theorem parseDemOpsGo_step_rep (f : Nat) (inB : Bool) (c : Nat) (cs : List Nat) (acc : List TDem)
    (hsp : isSpaceC c = false) (hhash : (c == 35) = false) (hbrace : c ≠ 125)
    (tag : List Nat) (args : List Rat) (ts : List DTarget) (nums r : List Nat)
    (hp : parseDemLine (c :: cs) = .ok (none, tag, args, ts, nums) r)
    (body : List TDem) (r2 : List Nat) (hin : parseDemOpsGo f true (r.drop 1) [] = .ok body r2) :
    parseDemOpsGo (f + 1) inB (c :: cs) acc = parseDemOpsGo f inB r2 (.rep (nums.headD 0) tag body :: acc) := by
  conv => lhs; unfold parseDemOpsGo
  simp only [List.length_cons, skipDead_id _ c cs hsp hhash]
  split
  · rename_i h; cases h
  · rename_i r' h
    simp only [List.cons.injEq] at h
    exact absurd h.1 hbrace
  · simp only [hp, hin]

mutual
theorem go_dem : ∀ (o : TDem), WfDem o → ∀ (indent : Nat) (inB : Bool) (rest : List Nat) (acc : List TDem) (f : Nat), wDem o ≤ f →
    parseDemOpsGo (f + 1) inB (lineDem indent o ++ 10 :: rest) acc = parseDemOpsGo f inB rest (o :: acc)
  | .instr k tag args ts nums, hwf, indent, inB, rest, acc, f, _ => by
    have hrt := dem_line_round_trip k tag args ts nums hwf rest
    obtain ⟨c0, cs0, hb, hsp, hhash, hbrace, _, _, _⟩ := kind_bytes k
    have hcs : printDemInstr k tag args ts nums ++ 10 :: rest
        = c0 :: (cs0 ++ (printTag tag ++ ((if args.isEmpty then [] else [40] ++ printDemArgs args ++ [41]) ++
            ((nums.flatMap fun n => 32 :: natDigits n) ++ ((ts.flatMap fun t => 32 :: printDTarget t) ++ 10 :: rest))))) := by
      simp [printDemInstr, hb]
    simp only [lineDem]
    rw [hcs] at hrt ⊢
    rw [parseDemOpsGo_step_instr f inB c0 _ acc hsp hhash hbrace k tag args ts nums _ hrt]
    simp only [List.drop_succ_cons, List.drop_zero]
  | .rep n tag body, hwf, indent, inB, rest, acc, f, hf => by
    obtain ⟨hn, hbody⟩ := hwf
    simp only [wDem] at hf
    let R : List Nat := List.replicate indent 32 ++ 125 :: 10 :: rest
    have htext : lineDem indent (.rep n tag body) ++ 10 :: rest
        = bytesOf "repeat" ++ (printTag tag ++ 32 :: (natDigits n ++ 32 :: 123 :: (10 :: (linesDems (indent + 4) body ++ R)))) := by
      simp [lineDem, R]
    have hhead := repeat_header_lc tag n hn (10 :: (linesDems (indent + 4) body ++ R))
    obtain ⟨g', hg'⟩ : ∃ g', f = (g' + 1) + body.length := ⟨f - body.length - 1, by omega⟩
    have hwb : wDems body ≤ g' + 1 := by omega
    have hinner : parseDemOpsGo f true (10 :: (linesDems (indent + 4) body ++ R)) [] = .ok body (10 :: rest) := by
      have h1 : parseDemOpsGo f true (10 :: (linesDems (indent + 4) body ++ R)) []
          = parseDemOpsGo f true (linesDems (indent + 4) body ++ R) [] :=
        parseDemOpsGo_skip_ws [10] _ f true [] (by decide)
      rw [h1, hg', go_dems body hbody (indent + 4) true R [] (g' + 1) hwb]
      have h2 : parseDemOpsGo (g' + 1) true R (body.reverse ++ []) = parseDemOpsGo (g' + 1) true (125 :: 10 :: rest) (body.reverse ++ []) :=
        parseDemOpsGo_skip_ws (List.replicate indent 32) _ _ _ _ (replicate_space indent)
      rw [h2, parseDemOpsGo_close]
      simp
    rw [htext]
    have hfirst : bytesOf "repeat" ++ (printTag tag ++ 32 :: (natDigits n ++ 32 :: 123 :: (10 :: (linesDems (indent + 4) body ++ R))))
        = 114 :: ([101, 112, 101, 97, 116] ++ (printTag tag ++ 32 :: (natDigits n ++ 32 :: 123 :: (10 :: (linesDems (indent + 4) body ++ R))))) := by
      rw [bytes_repeat_lc]; rfl
    rw [hfirst] at hhead ⊢
    rw [parseDemOpsGo_step_rep f inB 114 _ acc (by decide) (by decide) (by decide) tag [] [] [n] _ hhead
      body (10 :: rest) (by simpa using hinner)]
    have h3 : parseDemOpsGo f inB (10 :: rest) (.rep ([n].headD 0) tag body :: acc)
        = parseDemOpsGo f inB rest (.rep ([n].headD 0) tag body :: acc) :=
      parseDemOpsGo_skip_ws [10] _ f inB _ (by decide)
    rw [h3]
    rfl
theorem go_dems : ∀ (ops : List TDem), WfDems ops → ∀ (indent : Nat) (inB : Bool) (rest : List Nat) (acc : List TDem) (f : Nat), wDems ops ≤ f →
    parseDemOpsGo (f + ops.length) inB (linesDems indent ops ++ rest) acc = parseDemOpsGo f inB rest (ops.reverse ++ acc)
  | [], _, indent, inB, rest, acc, f, _ => by simp [linesDems]
  | o :: os, hwf, indent, inB, rest, acc, f, hf => by
    obtain ⟨ho, hos⟩ := hwf
    simp only [wDems] at hf
    have htext : linesDems indent (o :: os) ++ rest
        = List.replicate indent 32 ++ (lineDem indent o ++ 10 :: (linesDems indent os ++ rest)) := by
      simp [linesDems]
    rw [htext, parseDemOpsGo_skip_ws _ _ _ _ _ (replicate_space indent)]
    have hlen : f + (o :: os).length = (f + os.length) + 1 := by simp only [List.length_cons]; omega
    rw [hlen, go_dem o ho indent inB _ acc (f + os.length) (by omega)]
    rw [go_dems os hos indent inB rest _ f (by omega)]
    simp
end

mutual
theorem wDem_le_length : ∀ (o : TDem) (indent : Nat), wDem o + 1 ≤ (lineDem indent o).length + 1
  | .instr _ _ _ _ _, _ => by simp [wDem]
  | .rep n tag body, indent => by
    have ih := wDems_le_length body (indent + 4)
    simp only [wDem, lineDem, List.length_append, List.length_cons, bytes_repeat_lc, List.length_nil]
    omega
theorem wDems_le_length : ∀ (ops : List TDem) (indent : Nat), wDems ops + ops.length ≤ (linesDems indent ops).length
  | [], _ => by simp [wDems, linesDems]
  | o :: os, indent => by
    have h1 := wDem_le_length o indent
    have h2 := wDems_le_length os indent
    simp only [wDems, linesDems, List.length_append, List.length_cons]
    omega
end

/-- **A detector-error-model file with nested `repeat` blocks reads back as exactly the same tree.** -/
theorem dem_round_trip (ops : List TDem) (hwf : WfDems ops) :
    parseDemText (linesDems 0 ops) = .ok ops [] := by
  unfold parseDemText
  have hw := wDems_le_length ops 0
  obtain ⟨f, hf⟩ : ∃ f, (linesDems 0 ops).length + 2 = (f + 1) + ops.length := ⟨(linesDems 0 ops).length + 1 - ops.length, by omega⟩
  have hwf' : wDems ops ≤ f + 1 := by omega
  have := go_dems ops hwf 0 false [] [] (f + 1) hwf'
  rw [List.append_nil] at this
  rw [hf, this]
  unfold parseDemOpsGo
  simp [skipDead]

/-! ### relation to the model printer -/

mutual
def NoEmptyRepeat : TDem → Prop
  | .instr _ _ _ _ _ => True
  | .rep _ _ body => body ≠ [] ∧ NoEmptyRepeats body
def NoEmptyRepeats : List TDem → Prop
  | [] => True
  | o :: os => NoEmptyRepeat o ∧ NoEmptyRepeats os
end

mutual
theorem printDemOp_lineDem : ∀ (o : TDem) (indent : Nat), NoEmptyRepeat o →
    printDemOp indent o = List.replicate indent 32 ++ lineDem indent o
  | .instr _ _ _ _ _, _, _ => by simp [printDemOp, lineDem]
  | .rep n tag body, indent, h => by
    obtain ⟨hne, hb⟩ := h
    have ih := printDemOps_linesDems body (indent + 4) hne hb
    simp only [printDemOp, lineDem]
    have : printDemOps (indent + 4) body ++ 10 :: (List.replicate indent 32 ++ [125])
        = linesDems (indent + 4) body ++ (List.replicate indent 32 ++ [125]) := by
      rw [← ih]; simp
    simp [this]
theorem printDemOps_linesDems : ∀ (ops : List TDem) (indent : Nat), ops ≠ [] → NoEmptyRepeats ops →
    printDemOps indent ops ++ [10] = linesDems indent ops
  | [], _, h, _ => absurd rfl h
  | [o], indent, _, h => by
    simp only [printDemOps, linesDems, printDemOp_lineDem o indent h.1]
    simp
  | o :: o2 :: os, indent, _, h => by
    have ih := printDemOps_linesDems (o2 :: os) indent (by simp) h.2
    simp only [printDemOps, printDemOp_lineDem o indent h.1]
    rw [linesDems, ← ih]
    simp
end

/-! ### non-vacuity: argument lists that read back, and a whole model -/

theorem takeWhileC_append (p : Nat → Bool) : ∀ (a b : List Nat), a.all p = true → (∀ c, b.head? = some c → p c = false) →
    takeWhileC p (a ++ b) = (a, b)
  | [], b, _, hb => by
    cases b with
    | nil => simp [takeWhileC]
    | cons c cs => simp [takeWhileC, hb c rfl]
  | x :: xs, b, ha, hb => by
    simp only [List.all_cons, Bool.and_eq_true] at ha
    simp [takeWhileC, ha.1, takeWhileC_append p xs b ha.2 hb]

/-- a single argument whose printed literal `lit` evaluates back to it is read back, whatever follows the parenthesis -/
theorem args_single_read_back (v : Rat) (c : Nat) (cs : List Nat) (hp : printDemArgs [v] = c :: cs)
    (hblank : (c == 32 || c == 9) = false) (hall : (c :: cs).all isDoubleC = true) (hlen : (c :: cs).length ≤ 63)
    (hlit : parseLiteral (c :: cs) = some v) (hmax : (rabs v > maxDouble) = False) : ArgsReadBack [v] := by
  refine .inr fun rest => ?_
  rw [hp]
  have htw := takeWhileC_append isDoubleC (c :: cs) (41 :: rest) hall (by intro x hx; simp at hx; subst hx; decide)
  have hsb : skipBlank ((c :: cs) ++ 41 :: rest) = (c :: cs) ++ 41 :: rest := by
    simp [skipBlank, hblank]
  have hpd : parseDouble ((c :: cs) ++ 41 :: rest) = some (v, 41 :: rest) := by
    unfold parseDouble
    rw [htw]
    simp only [List.take_of_length_le hlen, List.drop_eq_nil_of_le hlen, List.nil_append, hlit]
    simp [hmax]
  rw [parseArgsGo, hsb, hpd]
  simp [skipBlank]

theorem args_eighth : ArgsReadBack [(1 : Rat) / 8] :=
  args_single_read_back ((1 : Rat) / 8) 48 [46, 49, 50, 53] (by decide +kernel) (by decide) (by decide) (by decide)
    (by decide +kernel) (by decide +kernel)

/-- `error(0.125) D0 ^ D1 L2` / `repeat[t] 3 { detector D0 / shift_detectors 5 / repeat 2 { logical_observable L1 } }` -/
example :
    parseDemText (linesDems 0 [.instr .error [] [(1 : Rat) / 8] [.det 0, .sep, .det 1, .obs 2] [],
        .rep 3 [116] [.instr .detector [] [] [.det 0] [], .instr .shift [] [] [] [5], .rep 2 [] [.instr .logical [] [] [.obs 1] []]]])
      = .ok [.instr .error [] [(1 : Rat) / 8] [.det 0, .sep, .det 1, .obs 2] [],
        .rep 3 [116] [.instr .detector [] [] [.det 0] [], .instr .shift [] [] [] [5], .rep 2 [] [.instr .logical [] [] [.obs 1] []]]] [] :=
  dem_round_trip _ (by
    simp only [WfDems, WfDem, and_true]
    refine ⟨⟨args_eighth, ?_, by simp [ShapeOk], by decide +kernel⟩, by decide,
      ⟨.inl rfl, ?_, by simp [ShapeOk], by decide⟩, ⟨.inl rfl, by simp, by simp [ShapeOk], by decide⟩, by decide,
      ⟨.inl rfl, ?_, by simp [ShapeOk], by decide⟩⟩
    all_goals
      intro t ht
      simp only [List.mem_cons, List.mem_nil_iff, or_false] at ht
      rcases ht with rfl | rfl | rfl | rfl <;> simp [IdOk])

end Stim.C08b
