import StimModel.Props.C16
import StimModel.Props.C10b
/-!
# C16 (continued): a sampled shot is the symptom vector of all the fired targets together

The oracle `demsample check` (`Driver.demsampleCheck`) folds the fired errors' symptom vectors into an accumulator with
`Driver.xorBits`.  `sample_is_symptoms_of_fired_targets`: for any number of errors and any fired pattern, that accumulator is
`errorVec` of the concatenation of the fired errors' target lists — so a detector named by an even number of fired errors (or
twice inside one error, or on both sides of a separator) is not flipped, and nothing else about the errors (their order, their
probabilities, which instruction they came from) matters.
-/
namespace Stim.C16
open Stim Stim.Driver Stim.C10

def fireStep (acc : List Bool) (p : List Bool × Bool) : List Bool := if p.2 then xorBits acc p.1 else acc

/-- the step function written with a pair pattern, as in `Driver.demsampleCheck`, is `fireStep` -/
theorem fireStep_eq : (fun (acc : List Bool) (x : List Bool × Bool) => match x with | (v, fired) => if fired then xorBits acc v else acc) = fireStep := by
  funext acc p
  cases p
  rfl

def firedTargets : List (List DTarget) → List Bool → List DTarget
  | ts :: tss, b :: bs => (if b then ts else []) ++ firedTargets tss bs
  | _, _ => []

theorem fold_fired (shape : Nat × Nat) : ∀ (tss : List (List DTarget)) (eb : List Bool) (pre : List DTarget),
    ((tss.map (errorVec shape)).zip eb).foldl fireStep (errorVec shape pre) = errorVec shape (pre ++ firedTargets tss eb)
  | [], _, pre => by simp [firedTargets]
  | _ :: _, [], pre => by simp [firedTargets]
  | ts :: tss, b :: bs, pre => by
    simp only [List.map_cons, List.zip_cons_cons, List.foldl_cons, firedTargets]
    cases b
    · simp only [fireStep, Bool.false_eq_true, if_false, List.nil_append]
      exact fold_fired shape tss bs pre
    · simp only [fireStep, if_true]
      have : xorBits (errorVec shape pre) (errorVec shape ts) = errorVec shape (pre ++ ts) := by
        rw [errorVec_append]; rfl
      rw [this, fold_fired shape tss bs (pre ++ ts), List.append_assoc]

/-- the oracle's accumulator = symptoms of all fired targets read as one list -/
theorem sample_is_symptoms_of_fired_targets (shape : Nat × Nat) (tss : List (List DTarget)) (eb : List Bool) :
    ((tss.map (errorVec shape)).zip eb).foldl fireStep (List.replicate (shape.1 + shape.2) false)
      = errorVec shape (firedTargets tss eb) := by
  rw [← errorVec_nil, fold_fired, List.nil_append]

/-- two fired errors naming the same detector leave it unflipped -/
example : (([[DTarget.det 0, .det 1], [.det 1, .obs 0], [.det 0]].map (errorVec (2, 1))).zip [true, true, false]).foldl
    fireStep [false, false, false] = [true, false, true] := by decide

end Stim.C16
