import StimModel.Model.Record
/-!
# The streaming measurement record loses nothing and answers lookbacks from the full history (C02, streamed output)

For every sequence of `record` / `recordMany` / `flush` operations on a `MeasureRecord` that starts empty:

* `stream_is_history`: the bits written by the flushes, followed by the bits still unwritten, are exactly all recorded bits in
  order — whatever the lookback window is, however flushes are interleaved;
* `flush_at_end_writes_everything`: if the sequence ends with a flush, the written bits are the whole history;
* `lookback_is_history`: a lookback within the limit returns the bit of the full history at that distance from the end, i.e.
  trimming the window never changes what `rec[-k]` reads.

(The hypothesis is the protocol: results enter the record only through `record`/`recordMany`.  The tableau simulator's
heralded-noise instructions used to append to the storage directly — finding D36 — and the one-shot `stim sample` path then
dropped those bits; the `cli` correspondence area exercises exactly that path.)
-/
namespace Stim.Record

/-- invariant: the unwritten results are still in the window, and the window is a suffix of the history -/
structure Inv (r : MRec) (hist : List Bool) : Prop where
  unw : r.unwritten ≤ r.storage.length
  suffix : ∃ pre, hist = pre ++ r.storage
  window : r.storage.length ≥ min hist.length r.maxLookback

theorem step_inv (r : MRec) (hist : List Bool) (op : Op) (h : Inv r hist) :
    Inv (step r op).1 (hist ++ history [op]) := by
  obtain ⟨hu, ⟨pre, hp⟩, hw⟩ := h
  cases op with
  | record b =>
    refine ⟨by simp [step]; omega, ⟨pre, by simp [step, history, hp]⟩, ?_⟩
    simp [step, history]; omega
  | recordMany bs =>
    refine ⟨by simp [step]; omega, ⟨pre, by simp [step, history, hp]⟩, ?_⟩
    simp [step, history]; omega
  | flush =>
    simp only [step, history, List.append_nil]
    split
    · rename_i hbig
      refine ⟨by simp, ⟨pre ++ r.storage.take (r.storage.length - r.maxLookback), ?_⟩, ?_⟩
      · rw [hp, List.append_assoc, List.take_append_drop]
      · simp only [List.length_drop]; omega
    · exact ⟨by simp, ⟨pre, hp⟩, hw⟩

/-- written bits so far ++ unwritten tail = history -/
theorem run_stream (ops : List Op) : ∀ (r : MRec) (hist written : List Bool), Inv r hist →
    written ++ r.storage.drop (r.storage.length - r.unwritten) = hist →
    let res := run r ops
    Inv res.1 (hist ++ history ops) ∧
    (written ++ res.2) ++ res.1.storage.drop (res.1.storage.length - res.1.unwritten) = hist ++ history ops := by
  induction ops with
  | nil => intro r hist written hi hw; simp [run, history, hi, hw]
  | cons op ops ih =>
    intro r hist written hi hw
    have hi1 := step_inv r hist op hi
    have hw1 : (written ++ (step r op).2) ++ (step r op).1.storage.drop ((step r op).1.storage.length - (step r op).1.unwritten)
        = hist ++ history [op] := by
      obtain ⟨hu, _, _⟩ := hi
      cases op with
      | record b =>
        simp only [step, history, List.append_nil, List.length_append, List.length_singleton]
        rw [show r.storage.length + 1 - (r.unwritten + 1) = r.storage.length - r.unwritten by omega]
        rw [List.drop_append_of_le_length (by omega), ← List.append_assoc, hw]
      | recordMany bs =>
        simp only [step, history, List.append_nil, List.length_append]
        rw [show r.storage.length + bs.length - (r.unwritten + bs.length) = r.storage.length - r.unwritten by omega]
        rw [List.drop_append_of_le_length (by omega), ← List.append_assoc, hw]
      | flush =>
        simp only [step, history, List.append_nil]
        rw [hw]; simp
    have := ih (step r op).1 (hist ++ history [op]) (written ++ (step r op).2) hi1 hw1
    have hh : hist ++ history [op] ++ history ops = hist ++ history (op :: ops) := by
      cases op <;> simp [history]
    simp only [run]
    rw [hh] at this
    simpa [List.append_assoc] using this

theorem init_inv (m : Nat) : Inv (MRec.init m) [] := ⟨by simp [MRec.init], ⟨[], by simp [MRec.init]⟩, by simp [MRec.init]⟩

/-- **Nothing is lost or reordered by streaming.** -/
theorem stream_is_history (m : Nat) (ops : List Op) :
    let res := run (MRec.init m) ops
    res.2 ++ res.1.storage.drop (res.1.storage.length - res.1.unwritten) = history ops := by
  have := run_stream ops (MRec.init m) [] [] (init_inv m) (by simp [MRec.init])
  simpa using this.2

theorem run_append (a b : List Op) (r : MRec) :
    run r (a ++ b) = ((run (run r a).1 b).1, (run r a).2 ++ (run (run r a).1 b).2) := by
  induction a generalizing r with
  | nil => simp [run]
  | cons op a ih => simp [run, ih, List.append_assoc]

theorem history_flush (ops : List Op) : history (ops ++ [.flush]) = history ops := by
  induction ops with
  | nil => simp [history]
  | cons op ops ih => cases op <;> simp [history, ih]

/-- **A final flush has written the whole history.** -/
theorem flush_at_end_writes_everything (m : Nat) (ops : List Op) :
    (run (MRec.init m) (ops ++ [.flush])).2 = history ops := by
  have h := stream_is_history m (ops ++ [.flush])
  have hu : (run (MRec.init m) (ops ++ [.flush])).1.unwritten = 0 := by
    rw [run_append]; simp [run, step]
  have hh : history (ops ++ [.flush]) = history ops := history_flush ops
  simp only [hu, Nat.sub_zero, List.drop_length, List.append_nil] at h
  rw [h, hh]

/-- **Lookbacks within the limit read the full history.** -/
theorem lookback_is_history (m : Nat) (ops : List Op) (k : Nat) (hk : 1 ≤ k) (hkm : k ≤ m) (hkh : k ≤ (history ops).length) :
    (run (MRec.init m) ops).1.lookback k = (history ops)[(history ops).length - k]? := by
  have hr := (run_stream ops (MRec.init m) [] [] (init_inv m) (by simp [MRec.init])).1
  simp only [List.nil_append] at hr
  obtain ⟨_, ⟨pre, hp⟩, hw⟩ := hr
  have hm : (run (MRec.init m) ops).1.maxLookback = m := by
    have : ∀ (ops : List Op) (r : MRec), (run r ops).1.maxLookback = r.maxLookback := by
      intro ops
      induction ops with
      | nil => intro r; rfl
      | cons op ops ih => intro r; simp only [run]; rw [ih]; cases op <;> simp [step]
    rw [this]; rfl
  have hlen : k ≤ (run (MRec.init m) ops).1.storage.length := by rw [hm] at hw; omega
  unfold MRec.lookback
  rw [hm]
  have hc : (k == 0 || decide (k > (run (MRec.init m) ops).1.storage.length) || decide (k > m)) = false := by
    simp; omega
  rw [hc]
  simp only [Bool.false_eq_true, ↓reduceIte]
  rw [hp, List.length_append]
  rw [List.getElem?_append_right (by omega)]
  congr 1; omega

example : (run (MRec.init 2) [.record true, .recordMany [false, true], .flush, .record false, .record false, .record true, .flush]).2
    = [true, false, true, false, false, true] := by decide
example : (run (MRec.init 2) [.record true, .recordMany [false, true], .flush, .record false, .record false, .record true, .flush]).1.storage
    = [false, true] := by decide

end Stim.Record
