import StimModel.Driver.Dispatch
open Stim

partial def loop (h : IO.FS.Stream) (out : IO.FS.Stream) : IO Unit := do
  let line ← h.getLine
  if line.isEmpty then return ()
  out.putStrLn (Stim.Driver.answer (line.trimAscii.toString.splitOn " "))
  loop h out

def main : IO Unit := do
  let out ← IO.getStdout
  loop (← IO.getStdin) out
  out.flush
