import StimModel
def main : IO Unit := IO.println "stub"
